package main

// Loading of /repo's current working tree and the indexes every rule uses.
// Nothing is cached between runs: each invocation re-parses and re-type-checks
// the five mkdb packages (tests excluded, see DESIGN.md §2.2).

import (
	"fmt"
	"go/ast"
	"go/token"
	"go/types"
	"os"
	"path/filepath"
	"sort"
	"strings"

	"golang.org/x/tools/go/callgraph"
	"golang.org/x/tools/go/callgraph/cha"
	"golang.org/x/tools/go/callgraph/vta"
	"golang.org/x/tools/go/cfg"
	"golang.org/x/tools/go/packages"
	"golang.org/x/tools/go/ssa"
	"golang.org/x/tools/go/ssa/ssautil"
	"golang.org/x/tools/go/types/typeutil"
)

const modPath = "github.com/mk6i/mkdb"

// Func is one source function or method of mkdb.
type Func struct {
	Name string // e.g. "storage.(*fileStore).flushPages", "engine.EvaluateInsert"
	Decl *ast.FuncDecl
	Obj  *types.Func
	Pkg  *packages.Package
	w    *World
	g    *Graph // lazily built CFG wrapper of the declaration body
}

type World struct {
	Dir   string
	Fset  *token.FileSet
	Pkgs  map[string]*packages.Package // by short key: sql, storage, engine, console, csvimport
	Funcs map[string]*Func
	byObj map[*types.Func]*Func

	prog    *ssa.Program
	ssaOK   bool
	cg      *callgraph.Graph
	cgVTA   *callgraph.Graph
	astCG   *CG
	pkgList []*packages.Package
	memo    map[string]any

	Config string // description of the build configuration

	Renamed     []string
	aliased     map[*Func]bool
	aliasShort  map[string]string // new short name -> pinned short name
	Inlined     []string          // helper functions substituted at their call sites before analysis
	SplitIn     map[string]string // function -> carrier variable split into per-field locals before analysis
	InlineNotes []string
}

type LoadOpts struct {
	Dir      string
	Overlay  map[string][]byte
	Env      []string // extra env, e.g. GOARCH=386
	Tags     string
	NoInline bool
}

func pkgKey(path string) string {
	switch path {
	case modPath + "/sql":
		return "sql"
	case modPath + "/storage":
		return "storage"
	case modPath + "/engine":
		return "engine"
	case modPath + "/cmd/console":
		return "console"
	case modPath + "/cmd/csvimport":
		return "csvimport"
	}
	return ""
}

// Load loads the tree and then makes unpinned helper functions transparent (inline.go).
func Load(o LoadOpts) (*World, error) {
	w, err := loadOnce(o)
	if err != nil || o.NoInline || len(pinnedFuncs) == 0 {
		return w, err
	}
	// renamed fields and types are spelled back first (rename.go)
	for round := 0; round < 3; round++ {
		ov, names := w.renameRound(o.Overlay)
		if len(names) == 0 {
			break
		}
		o2 := o
		o2.Overlay = ov
		w2, err2 := loadOnce(o2)
		if err2 != nil {
			w.InlineNotes = append(w.InlineNotes, fmt.Sprintf("rename normalisation abandoned for %v: %v", names, err2))
			break
		}
		w2.Renamed = append(append([]string{}, w.Renamed...), names...)
		w2.InlineNotes = w.InlineNotes
		w, o = w2, o2
	}
	pre := w.Renamed
	w.aliasRenamed()
	w.Renamed = append(pre, w.Renamed...)
	for round := 0; round < 20; round++ {
		ov, names, notes := w.inlineRound(o.Overlay)
		if len(names) == 0 {
			// no helper left: forward-substitute new locals
			var subs []string
			ov, subs = w.canonIncDec(o.Overlay)
			kind := "x += 1 written x++ in "
			if len(subs) == 0 {
				ov, subs = w.foldFieldInits(o.Overlay)
				kind = "an empty struct literal filled field by field right away is the keyed literal again in "
			}
			if len(subs) == 0 {
				ov, subs = w.restoreTailIndexLoops(o.Overlay)
				kind = "a range over the tail of a slice is the index loop over that tail again in "
			}
			if len(subs) == 0 {
				ov, subs = w.restoreForClauses(o.Overlay)
				kind = "an initialisation followed by a condition-only loop that ends in the step is a three-clause loop again in "
			}
			if len(subs) == 0 {
				ov, subs = w.restoreRangeValues(o.Overlay)
				kind = "a range by index whose first statement reads the element is a range by value again in "
			}
			if len(subs) == 0 {
				ov, subs = w.restoreOrientation(o.Overlay)
				kind = "a comparison written the other way round is turned back in "
			}
			if len(subs) == 0 {
				ov, subs = w.devirtualizeSeams(o.Overlay)
				kind = "function variable that only ever holds its initial function is called directly: "
			}
			if len(subs) == 0 {
				ov, subs = w.inlineBracketHelpers(o.Overlay)
				kind = "a helper that runs its function argument between an acquire and a deferred release is written out in "
			}
			if len(subs) == 0 {
				ov, subs = w.iifeDeferHelpers(o.Overlay)
				kind = "a helper with deferred calls is written as a function literal invoked on the spot: "
			}
			if len(subs) == 0 {
				ov, subs = w.splitIfInits(o.Overlay)
				kind = "the initialiser of an if that calls an unknown helper is written as a statement of its own in "
			}
			if len(subs) == 0 {
				ov, subs = w.sinkSingleUse(o.Overlay)
				kind = "a new local holding a call result, used once by the next statement, is written in place in "
			}
			if len(subs) == 0 {
				ov, subs = w.normalizeLocals(o.Overlay)
				kind = "new local "
			}
			if len(subs) == 0 {
				ov, subs = w.splitAggregates(o.Overlay)
				kind = "carrier struct split into one local per field: "
			}
			if len(subs) == 0 {
				ov, subs = w.coalesceCopies(o.Overlay)
				kind = "a fresh object built under a new name is built under the name it is copied to: "
			}
			if len(subs) == 0 {
				ov, subs = w.coalesceResultCopies(o.Overlay)
				kind = "a search written with a new local whose value is copied to a known variable at every exit is written with that variable: "
			}
			if len(subs) == 0 {
				ov, subs = w.expandReassignedAliases(o.Overlay)
				kind = "a local that only ever holds one expression is replaced by it: "
			}
			if len(subs) == 0 {
				ov, subs = w.restorePolarity(o.Overlay)
				kind = "a test written with the opposite polarity and swapped branches is written as the rules know it in "
			}
			if len(subs) == 0 {
				ov, subs = w.switchesToIfs(o.Overlay)
				kind = "tagless switch written as an if chain in "
			}
			if len(subs) == 0 {
				ov, subs = w.unrollLiteralRanges(o.Overlay)
				kind = "range over a literal unrolled in "
			}
			if len(subs) == 0 {
				ov, subs = w.restoreLoops(o.Overlay)
				kind = ""
			}
			if len(subs) > 0 {
				names = nil
				o2 := o
				o2.Overlay = ov
				if d := os.Getenv("MKDBCHECK_DEBUG_INLINE"); d != "" {
					for name, b := range ov {
						os.WriteFile(d+"/"+strings.ReplaceAll(strings.TrimPrefix(name, o.Dir), "/", "_"), b, 0644)
					}
				}
				w2, err2 := loadOnce(o2)
				if err2 != nil {
					w.InlineNotes = append(w.InlineNotes, fmt.Sprintf("local substitution abandoned for %v: %v", subs, err2))
					break
				}
				keep := w.Renamed
				w2.aliasRenamed()
				w2.Renamed = keep
				w2.Inlined = w.Inlined
				w2.SplitIn = w.SplitIn
				if strings.HasPrefix(kind, "carrier") {
					w2.SplitIn = map[string]string{}
					for k, v := range w.SplitIn {
						w2.SplitIn[k] = v
					}
					for _, s := range subs {
						if i := strings.LastIndex(s, ":"); i > 0 {
							w2.SplitIn[s[:i]] = s[i+1:]
						}
					}
				}
				w2.InlineNotes = append(w.InlineNotes, notes...)
				for _, s := range subs {
					if kind == "new local " {
						w2.InlineNotes = append(w2.InlineNotes, "new local "+s+" substituted into its uses before analysis")
					} else {
						w2.InlineNotes = append(w2.InlineNotes, kind+s+" before analysis")
					}
				}
				w, o = w2, o2
				continue
			}
		}
		w.InlineNotes = append(w.InlineNotes, notes...)
		if len(names) == 0 {
			break
		}
		o2 := o
		o2.Overlay = ov
		if d := os.Getenv("MKDBCHECK_DEBUG_INLINE"); d != "" {
			for name, b := range ov {
				os.WriteFile(d+"/"+strings.ReplaceAll(strings.TrimPrefix(name, o.Dir), "/", "_"), b, 0644)
			}
		}
		w2, err2 := loadOnce(o2)
		if err2 != nil {
			w.InlineNotes = append(w.InlineNotes, fmt.Sprintf("helper transparency abandoned for %v: the substituted program does not type-check (%v)", names, err2))
			break
		}
		keepR := w.Renamed
		w2.aliasRenamed()
		w2.Renamed = keepR
		w2.Inlined = append([]string{}, w.Inlined...)
		w2.SplitIn = w.SplitIn
		w2.InlineNotes = w.InlineNotes
		for _, n := range names {
			if strings.HasPrefix(n, "local ") {
				w2.InlineNotes = append(w2.InlineNotes, n)
			} else {
				w2.Inlined = append(w2.Inlined, n)
			}
		}
		w, o = w2, o2
	}
	return w, nil
}

func loadOnce(o LoadOpts) (*World, error) {
	env := append(os.Environ(), "GOFLAGS=-mod=mod", "GOPROXY=off", "GOSUMDB=off", "GOWORK=off", "GOTOOLCHAIN=local")
	env = append(env, o.Env...)
	conf := &packages.Config{
		Mode:    packages.LoadSyntax,
		Dir:     o.Dir,
		Tests:   false,
		Env:     env,
		Overlay: o.Overlay,
	}
	// -trimpath: the build cache entries of a scratch copy do not depend on where the copy lives, so identical
	// packages of different copies share them (the cache would otherwise grow by a few MB per analysed patch)
	conf.BuildFlags = []string{"-trimpath"}
	if o.Tags != "" {
		conf.BuildFlags = append(conf.BuildFlags, "-tags", o.Tags)
	}
	pkgs, err := packages.Load(conf, "./...")
	if err != nil {
		return nil, err
	}
	w := &World{Dir: o.Dir, Pkgs: map[string]*packages.Package{}, Funcs: map[string]*Func{}, byObj: map[*types.Func]*Func{}, memo: map[string]any{}}
	w.Config = strings.Join(o.Env, " ")
	if o.Tags != "" {
		w.Config += " tags=" + o.Tags
	}
	if w.Config == "" {
		w.Config = "default (GOOS/GOARCH of the host, no tags)"
	}
	for _, p := range pkgs {
		if len(p.Errors) > 0 {
			msg := ""
			for i, e := range p.Errors {
				if i < 4 {
					msg += " | " + e.Error()
				}
			}
			return nil, fmt.Errorf("package %s does not type-check:%s", p.PkgPath, msg)
		}
		k := pkgKey(p.PkgPath)
		if k == "" {
			continue // a package added to the module: loaded, indexed by path
		}
		w.Pkgs[k] = p
		w.Fset = p.Fset
	}
	if len(w.Pkgs) != 5 {
		return nil, fmt.Errorf("expected the 5 mkdb packages, found %d", len(w.Pkgs))
	}
	for k, p := range w.Pkgs {
		for _, f := range p.Syntax {
			for _, d := range f.Decls {
				fd, ok := d.(*ast.FuncDecl)
				if !ok || fd.Body == nil {
					continue
				}
				obj, _ := p.TypesInfo.Defs[fd.Name].(*types.Func)
				if obj == nil {
					continue
				}
				name := k + "." + fd.Name.Name
				if fd.Recv != nil && len(fd.Recv.List) == 1 {
					name = k + "." + recvString(fd.Recv.List[0].Type) + "." + fd.Name.Name
				}
				fn := &Func{Name: name, Decl: fd, Obj: obj, Pkg: p, w: w}
				if fd.Name.Name == "init" || fd.Name.Name == "_" {
					// a stable name: the file it is declared in (and its rank there), not a position
					base := filepath.Base(p.Fset.Position(fd.Pos()).Filename)
					cand := fmt.Sprintf("%s#%s", name, base)
					for i := 2; w.Funcs[cand] != nil; i++ {
						cand = fmt.Sprintf("%s#%s.%d", name, base, i)
					}
					name = cand
					fn.Name = name
				}
				w.Funcs[name] = fn
				w.byObj[obj] = fn
			}
		}
	}
	w.pkgList = pkgs
	return w, nil
}

func recvString(e ast.Expr) string {
	switch t := e.(type) {
	case *ast.StarExpr:
		return "(*" + recvString(t.X)[0:] + ")"
	case *ast.Ident:
		return t.Name
	case *ast.IndexExpr:
		return recvString(t.X)
	}
	return "?"
}

// pkgList is kept for SSA construction.
func (w *World) buildSSA() {
	if w.ssaOK {
		return
	}
	prog, _ := ssautil.Packages(w.pkgList, ssa.InstantiateGenerics)
	prog.Build()
	w.prog = prog
	w.ssaOK = true
}

func (w *World) SSAFunc(f *Func) *ssa.Function {
	w.buildSSA()
	return w.prog.FuncValue(f.Obj)
}

// CallGraph returns the CHA call graph (over-approximation used by may-reach rules).
func (w *World) CallGraph() *callgraph.Graph {
	w.buildSSA()
	if w.cg == nil {
		w.cg = cha.CallGraph(w.prog)
	}
	return w.cg
}

func (w *World) CallGraphVTA() *callgraph.Graph {
	w.buildSSA()
	if w.cgVTA == nil {
		w.cgVTA = vta.CallGraph(ssautil.AllFunctions(w.prog), w.CallGraph())
	}
	return w.cgVTA
}

func (w *World) F(name string) *Func { return w.Funcs[name] }

func (w *World) FuncOf(obj *types.Func) *Func {
	if obj == nil {
		return nil
	}
	return w.byObj[obj]
}

func (w *World) Pos(p token.Pos) string {
	if !p.IsValid() {
		return "-"
	}
	pos := w.Fset.Position(p)
	name := pos.Filename
	if strings.HasPrefix(name, w.Dir+"/") {
		name = name[len(w.Dir)+1:]
	}
	return fmt.Sprintf("%s:%d", name, pos.Line)
}

func (w *World) SortedFuncNames() []string {
	var ns []string
	for n := range w.Funcs {
		ns = append(ns, n)
	}
	sort.Strings(ns)
	return ns
}

// ---- callee resolution ------------------------------------------------------

// Callee returns the statically resolved callee (function, concrete method or
// interface method object) of a call, or nil.
func (f *Func) Callee(call *ast.CallExpr) *types.Func {
	fn, _ := typeutil.Callee(f.Pkg.TypesInfo, call).(*types.Func)
	return fn
}

// calleeKey renders a callee as pkgname.Name or pkgname.Recv.Name (receiver
// without pointer star), e.g. "storage.fileStore.incrLSN", "binary.Write",
// "storage.store.incrLSN" for an interface method.
func calleeKey(fn *types.Func) string {
	if fn == nil {
		return ""
	}
	pkg := ""
	if fn.Pkg() != nil {
		pkg = fn.Pkg().Name()
		if k := pkgKey(fn.Pkg().Path()); k != "" {
			pkg = k
		}
	}
	sig, _ := fn.Type().(*types.Signature)
	if sig != nil && sig.Recv() != nil {
		t := sig.Recv().Type()
		if p, ok := t.(*types.Pointer); ok {
			t = p.Elem()
		}
		if n, ok := t.(*types.Named); ok {
			if n.Obj().Pkg() != nil {
				pkg = n.Obj().Pkg().Name()
				if k := pkgKey(n.Obj().Pkg().Path()); k != "" {
					pkg = k
				}
			}
			return pkg + "." + n.Obj().Name() + "." + fnName(fn)
		}
		return pkg + ".?." + fnName(fn)
	}
	return pkg + "." + fnName(fn)
}

// CallIs reports whether call resolves to a function whose key is one of keys.
// A key "storage.*.incrLSN" matches the method incrLSN of any storage type
// (interface or implementation).
func (f *Func) CallIs(call *ast.CallExpr, keys ...string) bool {
	k := calleeKey(f.Callee(call))
	if k == "" {
		return false
	}
	for _, want := range keys {
		if want == k {
			return true
		}
		if strings.Contains(want, ".*.") {
			parts := strings.SplitN(want, ".*.", 2)
			kp := strings.Split(k, ".")
			if len(kp) == 3 && kp[0] == parts[0] && kp[2] == parts[1] {
				return true
			}
		}
	}
	return false
}

// Calls returns every call expression in n (not descending into function
// literals unless intoLits) that resolves to one of keys.
func (f *Func) Calls(n ast.Node, intoLits bool, keys ...string) []*ast.CallExpr {
	var out []*ast.CallExpr
	if n == nil {
		return nil
	}
	ast.Inspect(n, func(x ast.Node) bool {
		if _, ok := x.(*ast.FuncLit); ok && !intoLits && x != n {
			return false
		}
		if c, ok := x.(*ast.CallExpr); ok && f.CallIs(c, keys...) {
			out = append(out, c)
		}
		return true
	})
	return out
}

// FuncLits returns the function literals directly or indirectly nested in the declaration, in source order.
func (f *Func) FuncLits() []*ast.FuncLit {
	var out []*ast.FuncLit
	ast.Inspect(f.Decl.Body, func(x ast.Node) bool {
		if l, ok := x.(*ast.FuncLit); ok {
			out = append(out, l)
		}
		return true
	})
	return out
}

func (f *Func) TypeOf(e ast.Expr) types.Type { return f.Pkg.TypesInfo.TypeOf(e) }

func (f *Func) ObjOf(id *ast.Ident) types.Object { return f.Pkg.TypesInfo.ObjectOf(id) }

func (f *Func) Src(n ast.Node) string {
	if n == nil {
		return ""
	}
	if e, ok := n.(ast.Expr); ok {
		return types.ExprString(e)
	}
	return fmt.Sprintf("%T@%s", n, f.w.Pos(n.Pos()))
}

// Graph returns the CFG wrapper of the function's own body.
func (f *Func) Graph() *Graph {
	if f.g == nil {
		f.g = newGraph(f, f.Decl.Body)
	}
	return f.g
}

// LitGraph builds the CFG wrapper of a function literal's body.
func (f *Func) LitGraph(l *ast.FuncLit) *Graph { return newGraph(f, l.Body) }

func (f *Func) mayReturn(call *ast.CallExpr) bool {
	if id, ok := call.Fun.(*ast.Ident); ok && id.Name == "panic" {
		if _, isBuiltin := f.Pkg.TypesInfo.Uses[id].(*types.Builtin); isBuiltin {
			return false
		}
	}
	if f.CallIs(call, "os.Exit", "log.Fatal", "log.Fatalf", "log.Fatalln") {
		return false
	}
	return true
}

var _ = cfg.New

func fnName(fn *types.Func) string {
	funcAliasMu.RLock()
	a, ok := funcAlias[fn]
	funcAliasMu.RUnlock()
	if ok {
		return a
	}
	return fn.Name()
}
