package main

// Rules added after the third seeded-change campaign. Each is a clause whose
// truth is visible in the shape of the code; the rule text says why breaking it
// breaks the property.

import (
	"go/ast"
	"go/constant"
	"go/token"
	"go/types"
	"sort"
	"strings"

	"golang.org/x/tools/go/cfg"
)

// ---- sentinel identity ----------------------------------------------------------------------

// ruleSentinelWrapped: a package-level error value that some code recognises with
// errors.Is must keep its identity wherever it is produced: fmt.Errorf has to wrap
// it with %w. A sentinel that is recognised with == must not be wrapped at all.
func ruleSentinelWrapped(c *Ctx, rule string, pkgs ...string) {
	c.Rule(rule, "sentinel identity: every package-level error value that is recognised with errors.Is (replay tells \"row already in the flushed page\" from a real failure this way) is produced either bare or wrapped with %w — a fmt.Errorf that formats it with %v/%s builds an unrelated error and the recognition silently stops matching; a sentinel recognised with == is never wrapped")
	w := c.W
	isSentinel := func(f *Func, e ast.Expr) *types.Var {
		var id *ast.Ident
		switch x := ast.Unparen(e).(type) {
		case *ast.Ident:
			id = x
		case *ast.SelectorExpr:
			id = x.Sel
		default:
			return nil
		}
		v, ok := f.ObjOf(id).(*types.Var)
		if !ok || v.Pkg() == nil || v.Parent() != v.Pkg().Scope() || !isErrorType(v.Type()) {
			return nil
		}
		mine := false
		for _, p := range w.Pkgs {
			if p.Types == v.Pkg() {
				mine = true
			}
		}
		if !mine {
			return nil
		}
		return v
	}
	viaIs := map[*types.Var]token.Pos{}
	viaEq := map[*types.Var]token.Pos{}
	// eqCone: the functions whose errors can arrive at an identity comparison of the sentinel (the cones of the
	// calls the compared variable receives its value from; nil = unknown, every function counts)
	eqCone := map[*types.Var]map[*Func]bool{}
	eqUnknown := map[*types.Var]bool{}
	var sourcesOf func(f *Func, e ast.Expr, depth int) ([]*Func, bool)
	sourcesOf = func(f *Func, e ast.Expr, depth int) ([]*Func, bool) {
		id, ok := ast.Unparen(e).(*ast.Ident)
		if !ok || depth > 2 {
			return nil, false
		}
		obj := f.ObjOf(id)
		var srcs []*Func
		known := false
		ast.Inspect(f.Decl.Body, func(y ast.Node) bool {
			as, ok := y.(*ast.AssignStmt)
			if !ok || len(as.Rhs) != 1 {
				return true
			}
			for _, l := range as.Lhs {
				if lid, ok := l.(*ast.Ident); ok && f.ObjOf(lid) == obj {
					if c2, ok := ast.Unparen(as.Rhs[0]).(*ast.CallExpr); ok {
						if t := w.resolve(f.Callee(c2)); len(t) > 0 {
							srcs = append(srcs, t...)
							known = true
						}
					}
				}
			}
			return true
		})
		if known {
			return srcs, true
		}
		// a parameter: what the callers pass
		if isParamOf(f, obj) {
			idx := -1
			k := 0
			for _, fl := range f.Decl.Type.Params.List {
				for _, nm := range fl.Names {
					if f.ObjOf(nm) == obj {
						idx = k
					}
					k++
				}
			}
			all := true
			for _, cs := range w.CG().In[f] {
				if idx < 0 || idx >= len(cs.Call.Args) {
					all = false
					continue
				}
				t, ok := sourcesOf(cs.Caller, cs.Call.Args[idx], depth+1)
				if !ok {
					all = false
				}
				srcs = append(srcs, t...)
			}
			if all && len(srcs) > 0 {
				return srcs, true
			}
		}
		return nil, false
	}
	noteEq := func(f *Func, v *types.Var, compared ast.Expr) {
		srcs, ok := sourcesOf(f, compared, 0)
		if !ok {
			eqUnknown[v] = true
			return
		}
		if eqCone[v] == nil {
			eqCone[v] = map[*Func]bool{}
		}
		for g := range w.CG().Reach(srcs...) {
			eqCone[v][g] = true
		}
	}
	for _, name := range w.SortedFuncNames() {
		f := w.Funcs[name]
		ast.Inspect(f.Decl.Body, func(x ast.Node) bool {
			switch y := x.(type) {
			case *ast.CallExpr:
				if f.CallIs(y, "errors.Is") && len(y.Args) == 2 {
					if v := isSentinel(f, y.Args[1]); v != nil {
						viaIs[v] = y.Pos()
					}
				}
			case *ast.BinaryExpr:
				if y.Op == token.EQL || y.Op == token.NEQ {
					for si, side := range []ast.Expr{y.X, y.Y} {
						if v := isSentinel(f, side); v != nil {
							viaEq[v] = y.Pos()
							noteEq(f, v, []ast.Expr{y.Y, y.X}[si])
						}
					}
				}
			case *ast.SwitchStmt:
				// switch err { case ErrA, ErrB: … } compares by identity as well
				if y.Tag != nil && isErrorType(f.TypeOf(y.Tag)) {
					for _, cs := range y.Body.List {
						for _, e := range cs.(*ast.CaseClause).List {
							if v := isSentinel(f, e); v != nil {
								viaEq[v] = e.Pos()
								noteEq(f, v, y.Tag)
							}
						}
					}
				}
			}
			return true
		})
	}
	n := 0
	// a sentinel that is compared by identity somewhere must not be wrapped on its way there, not even with %w and
	// not through a variable: fmt.Errorf("column %s: %w", name, err) with err the result of a call whose cone can
	// return the sentinel
	for _, name := range w.SortedFuncNames() {
		f := w.Funcs[name]
		okPkg := len(pkgs) == 0
		for _, p := range pkgs {
			if f.Pkg == w.Pkgs[p] {
				okPkg = true
			}
		}
		if !okPkg || len(viaEq) == 0 {
			continue
		}
		k := 0
		ast.Inspect(f.Decl.Body, func(x ast.Node) bool {
			call, ok := x.(*ast.CallExpr)
			if !ok || !f.CallIs(call, "fmt.Errorf") || len(call.Args) < 2 {
				return true
			}
			for _, a := range call.Args[1:] {
				id, ok := ast.Unparen(a).(*ast.Ident)
				if !ok || !isErrorType(f.TypeOf(id)) || isSentinel(f, id) != nil {
					continue
				}
				obj := f.ObjOf(id)
				// the calls this variable receives its value from
				var srcs []*Func
				ast.Inspect(f.Decl.Body, func(y ast.Node) bool {
					as, ok := y.(*ast.AssignStmt)
					if !ok || len(as.Rhs) != 1 {
						return true
					}
					holds := false
					for _, l := range as.Lhs {
						if lid, ok := l.(*ast.Ident); ok && f.ObjOf(lid) == obj {
							holds = true
						}
					}
					if !holds || as.Pos() > call.Pos() {
						return true
					}
					if c2, ok := ast.Unparen(as.Rhs[0]).(*ast.CallExpr); ok {
						srcs = append(srcs, w.resolve(f.Callee(c2))...)
					}
					return true
				})
				if len(srcs) == 0 {
					continue
				}
				may := coneErrVars(w, srcs...)
				for v, at := range viaEq {
					if _, alsoIs := viaIs[v]; alsoIs {
						continue
					}
					if may[v] && (eqUnknown[v] || eqCone[v][f]) {
						k++
						n++
						c.FailConfined(rule, f.Name+"|wraps-through|"+id.Name+"|"+v.Name(), call.Pos(), "%s wraps %s in a new error, and %s can be %s, which is recognised by identity (== / switch) at %s: the comparison no longer matches and the condition is taken for another kind of failure", f.Name, id.Name, id.Name, v.Name(), w.Pos(at))
					}
				}
			}
			return true
		})
	}
	for _, name := range w.SortedFuncNames() {
		f := w.Funcs[name]
		okPkg := len(pkgs) == 0
		for _, p := range pkgs {
			if f.Pkg == w.Pkgs[p] {
				okPkg = true
			}
		}
		if !okPkg {
			continue
		}
		idx := map[string]int{}
		ast.Inspect(f.Decl.Body, func(x ast.Node) bool {
			call, ok := x.(*ast.CallExpr)
			if !ok || !f.CallIs(call, "fmt.Errorf") || len(call.Args) < 2 {
				return true
			}
			cv := f.constOf(call.Args[0])
			if cv == nil {
				return true
			}
			verbs := fmtVerbs(constString(cv))
			for i, a := range call.Args[1:] {
				v := isSentinel(f, a)
				if v == nil {
					continue
				}
				_, is := viaIs[v]
				_, eq := viaEq[v]
				if !is && !eq {
					continue
				}
				n++
				idx[v.Name()]++
				key := f.Name + "|wraps|" + v.Name() + "#" + itoa(idx[v.Name()])
				verb := byte('?')
				if i < len(verbs) {
					verb = verbs[i]
				}
				switch {
				case eq && !is:
					c.Fail(rule, key, call.Pos(), "%s is recognised with == (%s) but %s wraps it in a new error: the comparison can never match", v.Name(), w.Pos(viaEq[v]), f.Name)
				case verb != 'w':
					c.Fail(rule, key, call.Pos(), "%s formats the sentinel %s with %%%c: the error it returns no longer satisfies errors.Is(err, %s) at %s, so the caller takes a benign condition for a failure", f.Name, v.Name(), verb, v.Name(), w.Pos(viaIs[v]))
				default:
					c.OK(rule, key, call.Pos(), 1, "%s wrapped with %%w; recognised with errors.Is at %s", v.Name(), w.Pos(viaIs[v]))
				}
			}
			return true
		})
	}
	if n == 0 {
		c.Undecided(rule, "subjects", "no fmt.Errorf producing a recognised sentinel found")
	}
}

func constString(v constant.Value) string {
	if v.Kind() == constant.String {
		return constant.StringVal(v)
	}
	return v.String()
}

// fmtVerbs returns the verb letter consumed by each successive operand of a format string.
func fmtVerbs(format string) []byte {
	var out []byte
	for i := 0; i < len(format); i++ {
		if format[i] != '%' {
			continue
		}
		i++
		for i < len(format) && strings.IndexByte("+-# 0123456789.[]", format[i]) >= 0 {
			i++
		}
		if i >= len(format) {
			break
		}
		if format[i] == '%' {
			continue
		}
		if format[i] == '*' {
			out = append(out, '*')
			continue
		}
		out = append(out, format[i])
	}
	return out
}

// ---- a page is stamped only with the LSN of a record ----------------------------------------

func ruleStampHasRecord(c *Ctx, rule string) {
	c.Rule(rule, "a page is stamped only with the LSN of a record that describes the change: markDirty's argument is a forwarded parameter, the LSN field of the record being replayed, the constant 0 (a new page no record describes yet), or the store's next LSN — and then the same function builds a log record carrying that LSN and advances the counter afterwards. A stamp without its record makes replay skip the next record written for that page (record.LSN <= page.LSN)")
	w := c.W
	n := 0
	for _, name := range w.SortedFuncNames() {
		f := w.Funcs[name]
		if f.Pkg != w.Pkgs["storage"] {
			continue
		}
		calls := f.Calls(f.Decl.Body, true, "storage.btreeNode.markDirty")
		for i, call := range calls {
			if len(call.Args) != 1 {
				continue
			}
			n++
			key := f.Name + "|stamp#" + itoa(i+1)
			arg := ast.Unparen(call.Args[0])
			fromNext := func(e ast.Expr) bool {
				if ce, ok := ast.Unparen(e).(*ast.CallExpr); ok && f.CallIs(ce, "storage.*.nextLSN") {
					return true
				}
				return false
			}
			switch x := arg.(type) {
			case *ast.BasicLit:
				if cv := f.constOf(x); cv != nil && cv.String() == "0" {
					c.OK(rule, key, call.Pos(), 1, "new page stamped 0")
					continue
				}
			case *ast.SelectorExpr:
				if v := fieldVar(f, x); v != nil && v.Name() == "LSN" {
					c.OK(rule, key, call.Pos(), 1, "stamp is the LSN of the record being applied")
					continue
				}
				// a field of a parameter (the arguments of the operation bundled in a struct) is forwarded too
				root := ast.Expr(x)
				for {
					if s2, ok := ast.Unparen(root).(*ast.SelectorExpr); ok {
						root = s2.X
						continue
					}
					break
				}
				if rid, ok := ast.Unparen(root).(*ast.Ident); ok && isParamOf(f, f.ObjOf(rid)) {
					if b, ok := f.TypeOf(x).Underlying().(*types.Basic); ok && b.Kind() == types.Uint64 {
						c.OK(rule, key, call.Pos(), 1, "stamp forwarded from the caller (field of a parameter)")
						continue
					}
				}
			case *ast.Ident:
				obj := f.ObjOf(x)
				if isParamOf(f, obj) {
					c.OK(rule, key, call.Pos(), 1, "stamp forwarded from the caller")
					continue
				}
				if rhs, _, ok := f.definedBy(f.Decl.Body, obj); ok && fromNext(rhs) {
					arg = rhs
				}
			}
			if cv := f.constOf(arg); cv != nil && cv.String() == "0" {
				c.OK(rule, key, call.Pos(), 1, "new page stamped 0")
				continue
			}
			if !fromNext(arg) {
				c.Fail(rule, key, call.Pos(), "%s stamps a page with %s, which is neither a forwarded LSN, a record's LSN, 0 nor the store's next LSN", f.Name, f.Src(call.Args[0]))
				continue
			}
			// the function must build a record with that LSN and advance the counter after the stamp
			hasRecord := false
			for _, lit := range f.compositeLits("storage", "WALEntry") {
				if l := kvField(lit, "LSN"); l != nil {
					e := ast.Unparen(l)
					if fromNext(e) {
						hasRecord = true
					}
					if id, ok := e.(*ast.Ident); ok {
						if rhs, _, ok := f.definedBy(f.Decl.Body, f.ObjOf(id)); ok && fromNext(rhs) {
							hasRecord = true
						}
					}
				}
			}
			body := f.EnclosingBody(call)
			g := body.Graph()
			loc, okLoc := g.Locate(call)
			advances := false
			if okLoc {
				miss, _ := g.Forward(&loc, g.SuccessEdges, func(nn ast.Node, at Loc) Verdict {
					if g.containsCall(nn, "storage.*.incrLSN") != nil {
						return Cut
					}
					if r, ok := nn.(*ast.ReturnStmt); ok {
						if g.ReturnMayBeNil(r) {
							return Hit
						}
						return Cut
					}
					// next loop iteration stamps again: a stamp reached before incrLSN is a miss
					if nn != ast.Node(call) && g.containsCall(nn, "storage.btreeNode.markDirty") != nil {
						return Hit
					}
					return Go
				}, func(b *cfg.Block) Verdict { return Hit })
				advances = !miss
			}
			switch {
			case !hasRecord:
				c.Fail(rule, key, call.Pos(), "%s stamps a page with the store's next LSN but builds no log record carrying it: the page claims to contain a change no record describes, and replay skips the next record written for that page", f.Name)
			case !advances:
				c.Fail(rule, key, call.Pos(), "%s stamps a page with the next LSN but a success path leaves without advancing the counter: the next record reuses the LSN the page already carries and is skipped by replay", f.Name)
			default:
				c.OK(rule, key, call.Pos(), 3, "stamp = next LSN, record carries it, counter advanced on every success path")
			}
		}
	}
	if n < 10 {
		c.Undecided(rule, "subjects", "only %d markDirty call sites found (14 confirmed by hand)", n)
	}
}

func isParamOf(f *Func, obj types.Object) bool {
	if obj == nil {
		return false
	}
	for _, fl := range f.Decl.Type.Params.List {
		for _, nm := range fl.Names {
			if f.ObjOf(nm) == obj {
				return true
			}
		}
	}
	return false
}

// ---- comparisons are carried out on the values themselves -------------------------------------

func ruleExactCompare(c *Ctx, rule string) {
	c.Rule(rule, "comparisons of column values are exact: no operand of a comparison in the engine is a 64-bit integer converted to a floating-point or to a narrower integer type — int64→float64 rounds above 2^53, so distinct BIGINT values compare equal and rows are wrongly kept, dropped or ordered")
	w := c.W
	n, bad := 0, 0
	for _, name := range w.SortedFuncNames() {
		f := w.Funcs[name]
		if f.Pkg != w.Pkgs["engine"] {
			continue
		}
		idx := 0
		ast.Inspect(f.Decl.Body, func(x ast.Node) bool {
			be, ok := x.(*ast.BinaryExpr)
			if !ok {
				return true
			}
			switch be.Op {
			case token.EQL, token.NEQ, token.LSS, token.LEQ, token.GTR, token.GEQ:
			default:
				return true
			}
			n++
			for _, side := range []ast.Expr{be.X, be.Y} {
				call, ok := ast.Unparen(side).(*ast.CallExpr)
				if !ok || len(call.Args) != 1 {
					continue
				}
				tv, ok := f.Pkg.TypesInfo.Types[call.Fun]
				if !ok || !tv.IsType() {
					continue
				}
				to, ok1 := tv.Type.Underlying().(*types.Basic)
				from, ok2 := f.TypeOf(call.Args[0]).Underlying().(*types.Basic)
				if !ok1 || !ok2 || from.Info()&types.IsInteger == 0 {
					continue
				}
				if f.constOf(call.Args[0]) != nil {
					continue
				}
				lossy := false
				if to.Info()&types.IsFloat != 0 && intBits(from) > 32 {
					lossy = true
				}
				if to.Info()&types.IsInteger != 0 && intBits(to) < intBits(from) {
					lossy = true
				}
				if lossy {
					idx++
					bad++
					c.Fail(rule, f.Name+"|lossy-operand#"+itoa(idx), be.Pos(), "%s compares %s: the conversion %s→%s loses precision, so different values compare equal", f.Name, f.Src(be), from.Name(), to.Name())
				}
			}
			return true
		})
	}
	if n == 0 {
		c.Undecided(rule, "subjects", "no comparison found in the engine")
		return
	}
	if bad == 0 {
		c.OK(rule, "engine|comparisons-exact", token.NoPos, n, "%d comparisons in the engine, none on a precision-losing conversion", n)
	}
}

func intBits(b *types.Basic) int {
	switch b.Kind() {
	case types.Int8, types.Uint8:
		return 8
	case types.Int16, types.Uint16:
		return 16
	case types.Int32, types.Uint32:
		return 32
	}
	return 64
}

// ---- presence flags ------------------------------------------------------------------------------

func rulePresenceFlags(c *Ctx, rule string) {
	c.Rule(rule, "clause-presence flags come from the keyword, not from the value: every store a parser production makes to a boolean field of a statement node is a constant (set in the arm the keyword selected) or a token test — a flag computed from the parsed value makes `LIMIT 0` / `OFFSET 0` parse as \"no clause\"")
	w := c.W
	n := 0
	for _, name := range w.SortedFuncNames() {
		f := w.Funcs[name]
		if f.Pkg != w.Pkgs["sql"] || f.Decl.Recv == nil || !strings.Contains(f.Name, "(*Parser)") {
			continue
		}
		idx := map[string]int{}
		inspectBody(f.Decl.Body, func(x ast.Node) bool {
			as, ok := x.(*ast.AssignStmt)
			if !ok || len(as.Lhs) != len(as.Rhs) {
				return true
			}
			for i, l := range as.Lhs {
				sel, ok := ast.Unparen(l).(*ast.SelectorExpr)
				if !ok {
					continue
				}
				v := fieldVar(f, sel)
				if v == nil || v.Pkg() != f.Pkg.Types {
					continue
				}
				if b, ok := v.Type().Underlying().(*types.Basic); !ok || b.Kind() != types.Bool {
					continue
				}
				n++
				idx[v.Name()]++
				key := f.Name + "|flag|" + v.Name() + "#" + itoa(idx[v.Name()])
				rhs := ast.Unparen(as.Rhs[i])
				okRHS := f.constOf(rhs) != nil
				if ce, isCall := rhs.(*ast.CallExpr); isCall && f.CallIs(ce, "sql.Parser.match", "sql.Parser.check") {
					okRHS = true
				}
				if okRHS {
					c.OK(rule, key, as.Pos(), 1, "flag set from the keyword")
				} else {
					c.Fail(rule, key, as.Pos(), "%s sets the presence flag %s from %s: a clause whose value happens to make that false (LIMIT 0, OFFSET 0) parses as if it had not been written", f.Name, v.Name(), f.Src(rhs))
				}
			}
			return true
		})
	}
	if n < 2 {
		c.Undecided(rule, "subjects", "only %d presence-flag stores found (2 confirmed by hand)", n)
	}
}

// ---- cache keys have one static type ----------------------------------------------------------------

type keyParam struct {
	fn  *types.Func
	idx int
}

func ruleKeyTypeAgreement(c *Ctx, rule string) {
	c.Rule(rule, "the page cache is keyed by `any`, so a key matches only a key of the same dynamic TYPE and value: every call that passes a concrete value into a key parameter (a parameter of interface type that indexes the cache map, directly or through a forwarding helper) passes the same static type — a page re-registered under int64 next to its uint64 entry is a second entry nobody looks up, which pins a second slot while dirty and hides the flushed copy")
	w := c.W
	st := w.Pkgs["storage"]
	// fixpoint: key parameters
	keyParams := map[keyParam]bool{}
	paramIndex := func(f *Func, obj types.Object) int {
		i := 0
		for _, fl := range f.Decl.Type.Params.List {
			for _, nm := range fl.Names {
				if f.ObjOf(nm) == obj {
					return i
				}
				i++
			}
			if len(fl.Names) == 0 {
				i++
			}
		}
		return -1
	}
	changed := true
	for changed {
		changed = false
		for _, name := range w.SortedFuncNames() {
			f := w.Funcs[name]
			if f.Pkg != st {
				continue
			}
			ast.Inspect(f.Decl.Body, func(x ast.Node) bool {
				switch y := x.(type) {
				case *ast.IndexExpr:
					mt, ok := f.TypeOf(y.X).Underlying().(*types.Map)
					if !ok || !types.IsInterface(mt.Key()) {
						return true
					}
					if id, ok := ast.Unparen(y.Index).(*ast.Ident); ok {
						if pi := paramIndex(f, f.ObjOf(id)); pi >= 0 && !keyParams[keyParam{f.Obj, pi}] {
							keyParams[keyParam{f.Obj, pi}] = true
							changed = true
						}
					}
				case *ast.CallExpr:
					callee := f.Callee(y)
					if callee == nil {
						return true
					}
					for ai, a := range y.Args {
						if !keyParams[keyParam{callee, ai}] {
							continue
						}
						if id, ok := ast.Unparen(a).(*ast.Ident); ok {
							if pi := paramIndex(f, f.ObjOf(id)); pi >= 0 && types.IsInterface(f.TypeOf(id)) && !keyParams[keyParam{f.Obj, pi}] {
								keyParams[keyParam{f.Obj, pi}] = true
								changed = true
							}
						}
					}
				}
				return true
			})
		}
	}
	if len(keyParams) == 0 {
		c.Undecided(rule, "subjects", "no interface-typed parameter indexes a map in storage")
		return
	}
	type site struct {
		f    *Func
		call *ast.CallExpr
		t    types.Type
	}
	var sites []site
	for _, name := range w.SortedFuncNames() {
		f := w.Funcs[name]
		if f.Pkg != st {
			continue
		}
		ast.Inspect(f.Decl.Body, func(x ast.Node) bool {
			call, ok := x.(*ast.CallExpr)
			if !ok {
				return true
			}
			callee := f.Callee(call)
			if callee == nil {
				return true
			}
			for ai, a := range call.Args {
				if !keyParams[keyParam{callee, ai}] {
					continue
				}
				t := f.TypeOf(a)
				if t == nil || types.IsInterface(t) {
					continue // forwarded key
				}
				if b, ok := t.(*types.Basic); ok && b.Info()&types.IsUntyped != 0 {
					t = types.Default(t)
				}
				sites = append(sites, site{f, call, t})
			}
			return true
		})
	}
	if len(sites) < 3 {
		c.Undecided(rule, "subjects", "only %d concrete key arguments found (5 confirmed by hand)", len(sites))
		return
	}
	count := map[string]int{}
	for _, s := range sites {
		count[s.t.String()]++
	}
	major, best := "", 0
	var names []string
	for k := range count {
		names = append(names, k)
	}
	sort.Strings(names)
	for _, k := range names {
		if count[k] > best {
			major, best = k, count[k]
		}
	}
	idx := map[string]int{}
	for _, s := range sites {
		idx[s.f.Name]++
		key := s.f.Name + "|cache-key-type#" + itoa(idx[s.f.Name])
		if s.t.String() == major {
			c.OK(rule, key, s.call.Pos(), 1, "key of type %s", major)
		} else {
			c.Fail(rule, key, s.call.Pos(), "%s passes a cache key of type %s where every other site uses %s: as `any` keys the two never compare equal, so the page gets a second cache entry that no lookup finds", s.f.Name, s.t.String(), major)
		}
	}
}

// ---- insert and lookup pick the same child ------------------------------------------------------------

func ruleDescentAgreement(c *Ctx, rule string) {
	c.Rule(rule, "insert and lookup agree on which child covers a key: wherever a child of an internal node is chosen by position (internalCells[offsets[i]].fileOffset with a computed i), i is the first separator STRICTLY greater than the key — the first result of findCellOffsetByKey with its `found` result handled, or a scan guarded by `key < separator` — never a `>=` search, which sends a key equal to a separator into the other subtree than the one the lookup (and the duplicate test replay relies on) visits")
	w := c.W
	n := 0
	for _, name := range w.SortedFuncNames() {
		f := w.Funcs[name]
		if f.Pkg != w.Pkgs["storage"] {
			continue
		}
		idx := 0
		ast.Inspect(f.Decl.Body, func(x ast.Node) bool {
			sel, ok := x.(*ast.SelectorExpr)
			if !ok || sel.Sel.Name != "fileOffset" {
				return true
			}
			outer, ok := ast.Unparen(sel.X).(*ast.IndexExpr)
			if !ok {
				return true
			}
			osel, ok := ast.Unparen(outer.X).(*ast.SelectorExpr)
			if !ok {
				return true
			}
			if v := fieldVar(f, osel); v == nil || v.Name() != "internalCells" {
				return true
			}
			inner, ok := ast.Unparen(outer.Index).(*ast.IndexExpr)
			if !ok {
				return true
			}
			id, ok := ast.Unparen(inner.Index).(*ast.Ident)
			if !ok || f.constOf(id) != nil {
				return true // constant position (leftmost child of a scan) or computed expression
			}
			obj := f.ObjOf(id)
			if obj == nil {
				return true
			}
			// only child CHOICES: the value is read, not stored to
			idx++
			n++
			key := f.Name + "|child-index#" + itoa(idx)
			// (a) defined by findCellOffsetByKey
			if rhs, ri, ok := f.definedBy(f.Decl.Body, obj); ok {
				if call, isCall := ast.Unparen(rhs).(*ast.CallExpr); isCall {
					switch {
					case f.CallIs(call, "storage.btreeNode.findCellOffsetByKey") && ri == 0:
						found := f.resultVar(f.Decl.Body, call, 1)
						used := false
						if found != nil {
							ast.Inspect(f.Decl.Body, func(y ast.Node) bool {
								if ifs, ok := y.(*ast.IfStmt); ok {
									ast.Inspect(ifs.Cond, func(z ast.Node) bool {
										if zi, ok := z.(*ast.Ident); ok && f.ObjOf(zi) == found {
											used = true
										}
										return true
									})
								}
								return true
							})
						}
						if used {
							c.OK(rule, key, sel.Pos(), 2, "index = insertion point from findCellOffsetByKey, found handled")
						} else {
							c.Fail(rule, key, sel.Pos(), "%s takes the child position from findCellOffsetByKey but ignores `found`: for a key equal to a separator the position is the separator's own cell, not the first greater one", f.Name)
						}
						return true
					case f.CallIs(call, "sort.Search"):
						strict, nonStrict := false, false
						if len(call.Args) == 2 {
							ast.Inspect(call.Args[1], func(y ast.Node) bool {
								if be, ok := y.(*ast.BinaryExpr); ok {
									switch be.Op {
									case token.GTR, token.LSS:
										strict = true
									case token.GEQ, token.LEQ:
										nonStrict = true
									}
								}
								return true
							})
						}
						if nonStrict || !strict {
							c.Fail(rule, key, sel.Pos(), "%s chooses the child with a non-strict search (first separator >= key): a key equal to a separator descends into the subtree left of it, while lookup and the duplicate test go right of it — an existing key is inserted a second time (replay after a crash) or not found", f.Name)
						} else {
							c.Fail(rule, key, sel.Pos(), "%s chooses the child with sort.Search and no equality test: a key equal to a separator is no longer refused here", f.Name)
						}
						return true
					}
				}
			}
			// (b) a scan: the comparison of the key with the separator at the index variable. Where it is the
			// condition of the loop it says when to go ON (key >= separator); where it guards the choice
			// (or a break) it says when to STOP (key < separator). Anything that stops at a separator equal
			// to the key is the non-strict search.
			verdict := 0 // 1 strict, 2 non-strict
			var walk func(n ast.Node, loopCond bool)
			classify := func(be *ast.BinaryExpr, loopCond bool, negated bool) {
				op := be.Op
				var keySide, sepSide ast.Expr = be.X, be.Y
				call, ok := ast.Unparen(sepSide).(*ast.CallExpr)
				if !ok || !f.CallIs(call, "storage.btreeNode.cellKey") {
					keySide, sepSide = be.Y, be.X
					op = mirrorOp(op)
					call, ok = ast.Unparen(sepSide).(*ast.CallExpr)
					if !ok || !f.CallIs(call, "storage.btreeNode.cellKey") {
						return
					}
				}
				_ = keySide
				mentions := false
				ast.Inspect(call, func(z ast.Node) bool {
					if zi, ok := z.(*ast.Ident); ok && f.ObjOf(zi) == obj {
						mentions = true
					}
					return true
				})
				if !mentions {
					return
				}
				if negated {
					op = negOp(op)
				}
				// normalise to the STOP condition on (key op separator)
				stop := op
				if loopCond {
					stop = negOp(op)
				}
				switch stop {
				case token.LSS:
					if verdict == 0 {
						verdict = 1
					}
				case token.LEQ:
					verdict = 2
				}
			}
			walk = func(n ast.Node, loopCond bool) {
				ast.Inspect(n, func(y ast.Node) bool {
					switch z := y.(type) {
					case *ast.ForStmt:
						if z.Cond != nil {
							var visit func(e ast.Expr, neg bool)
							visit = func(e ast.Expr, neg bool) {
								e = ast.Unparen(e)
								if u, ok := e.(*ast.UnaryExpr); ok && u.Op == token.NOT {
									visit(u.X, !neg)
									return
								}
								if be, ok := e.(*ast.BinaryExpr); ok {
									if be.Op == token.LAND || be.Op == token.LOR {
										visit(be.X, neg)
										visit(be.Y, neg)
										return
									}
									classify(be, true, neg)
								}
							}
							visit(z.Cond, false)
						}
						walk(z.Body, false)
						return false
					case *ast.IfStmt:
						var visit func(e ast.Expr, neg bool)
						visit = func(e ast.Expr, neg bool) {
							e = ast.Unparen(e)
							if u, ok := e.(*ast.UnaryExpr); ok && u.Op == token.NOT {
								visit(u.X, !neg)
								return
							}
							if be, ok := e.(*ast.BinaryExpr); ok {
								if be.Op == token.LAND || be.Op == token.LOR {
									visit(be.X, neg)
									visit(be.Y, neg)
									return
								}
								classify(be, false, neg)
							}
						}
						visit(z.Cond, false)
					}
					return true
				})
			}
			walk(f.Decl.Body, false)
			switch verdict {
			case 1:
				c.OK(rule, key, sel.Pos(), 2, "the scan stops at the first separator strictly greater than the key")
				return true
			case 2:
				c.Fail(rule, key, sel.Pos(), "%s chooses the child at the first separator >= key (non-strict): insert and lookup disagree for a key equal to a separator", f.Name)
				return true
			}
			// positions that are not a choice by key (split bookkeeping, parent fix-up) are out of scope
			n--
			idx--
			return true
		})
	}
	if n < 2 {
		c.Undecided(rule, "subjects", "only %d child choices by key found (insertInternal and findCell confirmed by hand)", n)
	}
}

// ---- nothing can refuse after the row is in the page ----------------------------------------------------

func rulePostMutationInfallible(c *Ctx, rule string) {
	c.Rule(rule, "BTree.insert has no refusal after the row is in the page: the steps that follow insertKey (advancing the row-id and LSN counters) cannot fail — every implementation of a callee whose error BTree.insert returns after the mutation returns nil on all paths. A guard placed there (\"row ids exhausted\") reports an error for a row that has already been inserted and will be found by the next SELECT")
	w := c.W
	f := c.NeedFunc(rule, "storage.(*BTree).insert")
	if f == nil {
		return
	}
	muts := f.Calls(f.Decl.Body, false, "storage.BTree.insertKey")
	if len(muts) != 1 {
		c.Undecided(rule, f.Name+"|mutation", "expected one insertKey call, found %d", len(muts))
		return
	}
	n := 0
	for _, cs := range w.CG().Sites[f] {
		if cs.Call.Pos() <= muts[0].Pos() || cs.InLit != nil {
			continue
		}
		sig, _ := cs.Callee.Type().(*types.Signature)
		if sig == nil || sig.Results().Len() == 0 || !isErrorType(sig.Results().At(sig.Results().Len()-1).Type()) {
			continue
		}
		n++
		key := f.Name + "|after-mutation|" + calleeKey(cs.Callee)
		if len(cs.Targets) == 0 {
			c.Fail(rule, key, cs.Call.Pos(), "%s can fail after the row has been inserted", calleeKey(cs.Callee))
			continue
		}
		bad := ""
		for _, t := range cs.Targets {
			for _, r := range t.Graph().Returns() {
				if len(r.Results) == 0 || !isNilIdent(t, r.Results[len(r.Results)-1]) {
					bad = t.Name + " (" + w.Pos(r.Pos()) + ")"
				}
			}
		}
		if bad != "" {
			c.Fail(rule, key, cs.Call.Pos(), "%s can return an error after insertKey has put the row into the page (%s): the statement is reported as failed but the row is there, unlogged, and becomes visible to every later SELECT", calleeKey(cs.Callee), bad)
		} else {
			c.OK(rule, key, cs.Call.Pos(), len(cs.Targets), "every implementation returns nil on all paths")
		}
	}
	if n == 0 {
		c.Note("%s: no fallible step follows insertKey in BTree.insert", rule)
		c.OK(rule, f.Name+"|after-mutation|none", f.Decl.Pos(), 1, "no error-returning call follows insertKey")
	}
}

// ---- a refused USE touches nothing ------------------------------------------------------------------------

var fsMutators = []string{"os.Mkdir", "os.MkdirAll", "os.Create", "os.OpenFile", "os.WriteFile", "os.Remove", "os.RemoveAll", "os.Rename", "os.Truncate", "os.File.Write", "os.File.WriteAt", "os.File.WriteString", "os.File.Truncate"}

func ruleProbeReadOnly(c *Ctx, rule string) {
	c.Robust(rule)
	c.Rule(rule, "selecting a database that does not exist changes nothing: in OpenRelation no call that precedes the `database does not exist` refusal reaches (through the call graph) a function that creates, writes or removes a file or directory — the existence probe is read-only")
	w := c.W
	f := c.NeedFunc(rule, "storage.OpenRelation")
	if f == nil {
		return
	}
	g := f.Graph()
	// the refusal: a return of a package-level sentinel
	var refusals []*ast.ReturnStmt
	for _, r := range g.Returns() {
		if len(r.Results) == 0 {
			continue
		}
		e := ast.Unparen(r.Results[len(r.Results)-1])
		if id, ok := e.(*ast.Ident); ok {
			if v, ok := f.ObjOf(id).(*types.Var); ok && v.Pkg() != nil && v.Parent() == v.Pkg().Scope() {
				refusals = append(refusals, r)
			}
		}
	}
	if len(refusals) == 0 {
		c.Undecided(rule, f.Name+"|refusal", "no return of a sentinel error found in OpenRelation")
		return
	}
	mutates := func(t *Func) (string, bool) {
		for fn := range w.CG().Reach(t) {
			for _, cs := range w.CG().Sites[fn] {
				k := calleeKey(cs.Callee)
				for _, m := range fsMutators {
					if k == m {
						return fn.Name + " → " + m, true
					}
				}
			}
		}
		return "", false
	}
	for i, r := range refusals {
		key := f.Name + "|refusal#" + itoa(i+1) + "|read-only-before"
		rloc, ok := g.Locate(r)
		if !ok {
			c.Undecided(rule, key, "refusal not located in the flow graph")
			continue
		}
		bad := ""
		examined := 0
		for _, cs := range w.CG().Sites[f] {
			if cs.InLit != nil {
				continue
			}
			cloc, ok := g.Locate(cs.Call)
			if !ok || !g.Dominates(cloc, rloc) {
				continue
			}
			examined++
			k := calleeKey(cs.Callee)
			for _, m := range fsMutators {
				if k == m {
					bad = k
				}
			}
			for _, t := range cs.Targets {
				if via, yes := mutates(t); yes {
					bad = t.Name + ": " + via
				}
			}
		}
		if bad != "" {
			c.Fail(rule, key, r.Pos(), "before OpenRelation refuses a missing database it has already changed the file system (%s): a failed USE leaves a directory behind that SHOW DATABASES then lists as a database nobody created", bad)
		} else if examined == 0 {
			c.Undecided(rule, key, "no call precedes the refusal: existence is not probed")
		} else {
			c.OK(rule, key, r.Pos(), examined, "the %d call(s) before the refusal reach no file-system mutator", examined)
		}
	}
}

func isBoolVar(f *Func, id *ast.Ident) bool {
	o := f.ObjOf(id)
	if o == nil {
		return false
	}
	b, ok := o.Type().Underlying().(*types.Basic)
	return ok && b.Kind() == types.Bool
}

// ---- no loop walks the recency list while its body reorders it -----------------------------------------

func ruleListIterationStable(c *Ctx, rule string) {
	c.Robust(rule)
	c.Rule(rule, "iterator stability: a loop that steps through the recency list (e = e.Prev()/e.Next()) does not, in its body, reach a call that reorders or unlinks list elements (MoveToFront, PushFront, Remove, …) — the flush rewrites every page through update → setCache → MoveToFront, so walking the list there revisits or skips elements and dirty pages are left unwritten yet treated as flushed; the flush iterates the cache map, whose iteration is unaffected by updates of existing keys")
	w := c.W
	mut := []string{"list.List.MoveToFront", "list.List.MoveToBack", "list.List.PushFront", "list.List.PushBack", "list.List.Remove", "list.List.InsertBefore", "list.List.InsertAfter", "list.List.MoveBefore", "list.List.MoveAfter", "list.List.Init"}
	reachesMut := map[*Func]string{}
	var reach func(f *Func, seen map[*Func]bool) string
	reach = func(f *Func, seen map[*Func]bool) string {
		if s, ok := reachesMut[f]; ok {
			return s
		}
		if seen[f] {
			return ""
		}
		seen[f] = true
		res := ""
		for _, cs := range w.CG().Sites[f] {
			k := calleeKey(cs.Callee)
			for _, m := range mut {
				if k == m {
					res = f.Name + " → " + m
				}
			}
			if res != "" {
				break
			}
			for _, t := range cs.Targets {
				if r := reach(t, seen); r != "" {
					res = f.Name + " → " + r
					break
				}
			}
			if res != "" {
				break
			}
		}
		reachesMut[f] = res
		return res
	}
	n := 0
	for _, name := range w.SortedFuncNames() {
		f := w.Funcs[name]
		if f.Pkg != w.Pkgs["storage"] {
			continue
		}
		idx := 0
		inspectBody(f.Decl.Body, func(x ast.Node) bool {
			fs, ok := x.(*ast.ForStmt)
			if !ok {
				return true
			}
			steps := false
			ast.Inspect(fs, func(y ast.Node) bool {
				if call, ok := y.(*ast.CallExpr); ok && f.CallIs(call, "list.Element.Prev", "list.Element.Next") {
					steps = true
				}
				return true
			})
			if !steps {
				return true
			}
			idx++
			n++
			key := f.Name + "|list-walk#" + itoa(idx)
			bad := ""
			ast.Inspect(fs.Body, func(y ast.Node) bool {
				call, ok := y.(*ast.CallExpr)
				if !ok || bad != "" {
					return true
				}
				callee := f.Callee(call)
				if callee == nil {
					return true
				}
				k := calleeKey(callee)
				for _, m := range mut {
					if k == m {
						// an unlink directly followed by leaving the loop is the victim idiom; a mutation inside a continuing walk is not
						bad = k
					}
				}
				for _, t := range w.resolve(callee) {
					if r := reach(t, map[*Func]bool{}); r != "" {
						bad = r
					}
				}
				return true
			})
			if bad != "" {
				c.Fail(rule, key, fs.Pos(), "%s walks the recency list while its body reorders it (%s): elements moved to the front are skipped or revisited, so some dirty pages are never written by this pass", f.Name, bad)
			} else {
				c.OK(rule, key, fs.Pos(), 1, "the walk's body leaves the list alone")
			}
			return true
		})
	}
	// the flush loop itself ranges over the cache map
	if fl := c.NeedFunc(rule, "storage.(*fileStore).flushPages"); fl != nil {
		okRange := false
		inspectBody(fl.Decl.Body, func(x ast.Node) bool {
			if rs, ok := x.(*ast.RangeStmt); ok && len(fl.Calls(rs.Body, false, "storage.*.update")) > 0 {
				switch fl.TypeOf(rs.X).Underlying().(type) {
				case *types.Map, *types.Slice, *types.Array:
					okRange = true // a map, or a slice collected beforehand: neither is reordered by the writes
				}
			}
			// an index loop over a slice collected beforehand
			if fs, ok := x.(*ast.ForStmt); ok && fs.Cond != nil && len(fl.Calls(fs.Body, false, "storage.*.update")) > 0 {
				if be, ok := ast.Unparen(fs.Cond).(*ast.BinaryExpr); ok && be.Op == token.LSS {
					if lc, ok := ast.Unparen(be.Y).(*ast.CallExpr); ok && len(lc.Args) == 1 {
						if id, ok := lc.Fun.(*ast.Ident); ok && id.Name == "len" {
							if _, isSlice := fl.TypeOf(lc.Args[0]).Underlying().(*types.Slice); isSlice {
								okRange = true
							}
						}
					}
				}
			}
			return true
		})
		n++
		if okRange {
			c.OK(rule, fl.Name+"|ranges-over-map", fl.Decl.Pos(), 1, "the loop that writes the pages ranges over the cache map (or a slice collected from it)")
		} else {
			hasWalk := false
			for _, o := range c.Obs {
				if o.Rule == rule && strings.HasPrefix(o.Key, fl.Name+"|list-walk") {
					hasWalk = true
				}
			}
			if !hasWalk {
				c.Undecided(rule, fl.Name+"|ranges-over-map", "the flush loop neither ranges over the cache map nor walks the list: unknown iteration")
			}
		}
	}
	if n < 2 {
		c.Undecided(rule, "subjects", "only %d list walks / flush loops found", n)
	}
}

// ---- statement-supplied integers are compared, never added ------------------------------------------------

func ruleNoArithmeticOnStatementInts(c *Ctx, rule string) {
	c.Rule(rule, "integers written in the statement (LIMIT, OFFSET, …: integer fields of the parsed statement) are only compared with lengths, never added, subtracted or multiplied in the engine: `start + Limit` wraps around for a LIMIT near the integer maximum, the guard computed from the sum passes, and the slice expression built from it panics (or selects the wrong window)")
	w := c.W
	eng := w.Pkgs["engine"]
	sqlp := w.Pkgs["sql"]
	if eng == nil || sqlp == nil {
		c.Undecided(rule, "subjects", "engine or sql package not loaded")
		return
	}
	isStmtField := func(f *Func, e ast.Expr) bool {
		e = f.stripConv(ast.Unparen(e))
		sel, ok := ast.Unparen(e).(*ast.SelectorExpr)
		if !ok {
			return false
		}
		v := fieldVar(f, sel)
		if v == nil || v.Pkg() != sqlp.Types {
			return false
		}
		b, ok := v.Type().Underlying().(*types.Basic)
		return ok && b.Info()&types.IsInteger != 0
	}
	// parameters that receive a statement integer at some call site
	tainted := map[types.Object]bool{}
	for _, name := range w.SortedFuncNames() {
		f := w.Funcs[name]
		if f.Pkg != eng {
			continue
		}
		for _, cs := range w.CG().Sites[f] {
			for ai, a := range cs.Call.Args {
				if !isStmtField(f, a) {
					continue
				}
				for _, t := range cs.Targets {
					if pi := paramIdent(t, ai); pi != nil {
						tainted[t.ObjOf(pi)] = true
					}
				}
			}
		}
	}
	n, bad := 0, 0
	for _, name := range w.SortedFuncNames() {
		f := w.Funcs[name]
		if f.Pkg != eng {
			continue
		}
		isStmtInt := func(e ast.Expr) bool {
			if isStmtField(f, e) {
				return true
			}
			e = f.stripConv(ast.Unparen(e))
			if id, ok := ast.Unparen(e).(*ast.Ident); ok {
				o := f.ObjOf(id)
				if tainted[o] {
					return true
				}
				if rhs, _, ok := f.definedBy(f.Decl.Body, o); ok && isStmtField(f, rhs) {
					return true
				}
			}
			return false
		}
		idx := 0
		ast.Inspect(f.Decl.Body, func(x ast.Node) bool {
			switch y := x.(type) {
			case *ast.SelectorExpr:
				if isStmtField(f, y) {
					n++
				}
			case *ast.BinaryExpr:
				switch y.Op {
				case token.ADD, token.SUB, token.MUL, token.SHL:
					if isStmtInt(y.X) || isStmtInt(y.Y) {
						// x - c where every path to here has established x >= c cannot wrap (a 1-based position
						// turned into an index after its range test)
						if y.Op == token.SUB && isStmtInt(y.X) {
							if cv := f.constOf(y.Y); cv != nil {
								body := f.EnclosingBody(y)
								g := body.Graph()
								if loc, ok := g.Locate(y); ok {
									xs := exprKey(y.X)
									if g.HoldsAt(loc, Rel{xs, token.GEQ, cv.String()}) || (cv.String() == "1" && g.HoldsAt(loc, Rel{xs, token.GTR, "0"})) {
										return true
									}
								}
							}
						}
						idx++
						bad++
						c.Fail(rule, f.Name+"|arithmetic#"+itoa(idx), y.Pos(), "%s computes %s from an integer written in the statement: the operation wraps around for values near the integer limits, so a bound derived from it passes its guard and the slice built from it is out of range", f.Name, f.Src(y))
					}
				}
			case *ast.AssignStmt:
				switch y.Tok {
				case token.ADD_ASSIGN, token.SUB_ASSIGN, token.MUL_ASSIGN:
					if len(y.Rhs) == 1 && isStmtInt(y.Rhs[0]) {
						idx++
						bad++
						c.Fail(rule, f.Name+"|arithmetic#"+itoa(idx), y.Pos(), "%s accumulates an integer written in the statement (%s): the operation can wrap around", f.Name, f.Src(y))
					}
				}
			}
			return true
		})
	}
	if n == 0 {
		c.Undecided(rule, "subjects", "the engine reads no integer field of the statement")
		return
	}
	if bad == 0 {
		c.OK(rule, "engine|statement-ints-compared-only", token.NoPos, n, "%d reads of statement integers in the engine, none an operand of +, -, * or <<", n)
	}
}

// ---- only Parse judges the end of input -----------------------------------------------------------------

func ruleEOFJudgedByParse(c *Ctx, rule string) {
	c.Rule(rule, "only Parse judges the end of input: Parse consumes the optional ';' AFTER the statement production has returned, so inside a production the terminator is still the current token — a production that tests the current token against EOF (without also admitting SEMICOLON in the same condition) rejects `SELECT 1;` while accepting `SELECT 1`")
	w := c.W
	sqlp := w.Pkgs["sql"]
	n := 0
	isTok := func(f *Func, e ast.Expr, name string) bool {
		k := f.namedConst(e)
		return k != nil && k.Pkg() == sqlp.Types && k.Name() == name
	}
	for _, name := range w.SortedFuncNames() {
		f := w.Funcs[name]
		if f.Pkg != sqlp || !strings.Contains(f.Name, "(*Parser)") {
			continue
		}
		idx := 0
		var conds []ast.Expr
		inspectBody(f.Decl.Body, func(x ast.Node) bool {
			switch y := x.(type) {
			case *ast.IfStmt:
				conds = append(conds, y.Cond)
			case *ast.ForStmt:
				if y.Cond != nil {
					conds = append(conds, y.Cond)
				}
			case *ast.CaseClause:
				conds = append(conds, y.List...)
			}
			return true
		})
		// `if t == EOF { return R }` directly in front of `switch t { … default: return R }` (no arm for EOF
		// or the terminator) decides nothing: EOF would reach the default arm and leave with the same R
		redundant := map[ast.Expr]bool{}
		inspectBody(f.Decl.Body, func(x ast.Node) bool {
			var list []ast.Stmt
			switch b := x.(type) {
			case *ast.BlockStmt:
				list = b.List
			case *ast.CaseClause:
				list = b.Body
			}
			for i := 0; i+1 < len(list); i++ {
				ifs, ok := list[i].(*ast.IfStmt)
				if !ok || ifs.Init != nil || ifs.Else != nil || len(ifs.Body.List) != 1 {
					continue
				}
				be, ok := ast.Unparen(ifs.Cond).(*ast.BinaryExpr)
				if !ok || be.Op != token.EQL || !isTok(f, be.Y, "EOF") {
					continue
				}
				ret, ok := ifs.Body.List[0].(*ast.ReturnStmt)
				sw, ok2 := list[i+1].(*ast.SwitchStmt)
				if !ok || !ok2 || sw.Init != nil || sw.Tag == nil || exprKey(sw.Tag) != exprKey(be.X) {
					continue
				}
				same := false
				clean := true
				sameRet := func(r2 *ast.ReturnStmt) bool {
					if len(r2.Results) != len(ret.Results) {
						return false
					}
					for k := range ret.Results {
						if exprKey(r2.Results[k]) != exprKey(ret.Results[k]) {
							return false
						}
					}
					return true
				}
				hasDefault := false
				for _, cl := range sw.Body.List {
					cc := cl.(*ast.CaseClause)
					if cc.List == nil {
						hasDefault = true
						if len(cc.Body) == 1 {
							if r2, ok := cc.Body[0].(*ast.ReturnStmt); ok && sameRet(r2) {
								same = true
							}
						}
						if len(cc.Body) == 0 && i+2 < len(list) {
							if r2, ok := list[i+2].(*ast.ReturnStmt); ok && sameRet(r2) {
								same = true
							}
						}
						continue
					}
					for _, e := range cc.List {
						if isTok(f, e, "EOF") || isTok(f, e, "SEMICOLON") {
							clean = false
						}
					}
				}
				if !hasDefault && i+2 < len(list) {
					// no default arm: EOF falls out of the switch to the statement that follows it
					if r2, ok := list[i+2].(*ast.ReturnStmt); ok && sameRet(r2) {
						same = true
					}
				}
				if same && clean {
					redundant[ifs.Cond] = true
				}
			}
			return true
		})
		for _, cond := range conds {
			eof, semi := false, false
			ast.Inspect(cond, func(y ast.Node) bool {
				if e, ok := y.(ast.Expr); ok {
					if isTok(f, e, "EOF") {
						eof = true
					}
					if isTok(f, e, "SEMICOLON") {
						semi = true
					}
				}
				return true
			})
			if !eof {
				continue
			}
			n++
			idx++
			key := f.Name + "|eof-test#" + itoa(idx)
			switch {
			case f.Name == "sql.(*Parser).Parse":
				c.OK(rule, key, cond.Pos(), 1, "Parse's own end-of-input test (after the optional terminator)")
			case semi:
				c.OK(rule, key, cond.Pos(), 1, "the test admits the terminator as well")
			case redundant[cond]:
				c.OK(rule, key, cond.Pos(), 1, "returns what the default arm of the switch that follows returns for EOF anyway")
			default:
				c.Fail(rule, key, cond.Pos(), "%s tests the current token against EOF (%s): at that point the statement terminator ';' has not been consumed yet (Parse does that afterwards), so a statement that ends in ';' is rejected or parsed differently from the same statement without it", f.Name, f.Src(cond))
			}
		}
	}
	if n == 0 {
		c.Undecided(rule, "subjects", "no end-of-input test found in the parser")
	}
}

// ---- round 4 ---------------------------------------------------------------------------------------------

// ruleNoRedundantSwitchBreak: an unlabelled break that ends a case clause only leaves the switch. When the
// switch sits in a loop the author of such a break meant the loop (Go is not C): the loop goes on with the
// state the arm was supposed to stop at.
func ruleNoRedundantSwitchBreak(c *Ctx, rule string, pkgs ...string) {
	c.Rule(rule, "no `break` that only leaves a switch inside a loop: an unlabelled break as the last statement of a case clause has no effect on the switch; inside a for loop it is the signature of `break` meant for the loop (an if-chain rewritten as a switch) — the torn-record / failed-row arm then falls out of the switch and the loop continues with the record or row it was supposed to stop at")
	w := c.W
	n, bad := 0, 0
	for _, name := range w.SortedFuncNames() {
		f := w.Funcs[name]
		okPkg := false
		for _, p := range pkgs {
			if f.Pkg == w.Pkgs[p] {
				okPkg = true
			}
		}
		if !okPkg {
			continue
		}
		idx := 0
		var visit func(n ast.Node, inLoop bool)
		visit = func(nd ast.Node, inLoop bool) {
			ast.Inspect(nd, func(x ast.Node) bool {
				if x == nil || x == nd {
					return true
				}
				switch y := x.(type) {
				case *ast.FuncLit:
					visit(y.Body, false)
					return false
				case *ast.ForStmt:
					visit(y.Body, true)
					return false
				case *ast.RangeStmt:
					visit(y.Body, true)
					return false
				case *ast.SwitchStmt, *ast.TypeSwitchStmt, *ast.SelectStmt:
					var body *ast.BlockStmt
					switch z := y.(type) {
					case *ast.SwitchStmt:
						body = z.Body
					case *ast.TypeSwitchStmt:
						body = z.Body
					case *ast.SelectStmt:
						body = z.Body
					}
					n++
					for _, cl := range body.List {
						var stmts []ast.Stmt
						switch cc := cl.(type) {
						case *ast.CaseClause:
							stmts = cc.Body
						case *ast.CommClause:
							stmts = cc.Body
						}
						if len(stmts) > 0 {
							if br, ok := stmts[len(stmts)-1].(*ast.BranchStmt); ok && br.Tok == token.BREAK && br.Label == nil && inLoop && len(stmts) > 1 {
								idx++
								bad++
								c.Fail(rule, f.Name+"|switch-break#"+itoa(idx), br.Pos(), "%s: this break ends a case clause of a switch inside a loop — it leaves the switch only, the loop carries on", f.Name)
							}
						}
						for _, st := range stmts {
							visit(st, inLoop)
						}
					}
					return false
				}
				return true
			})
		}
		visit(f.Decl.Body, false)
	}
	if bad == 0 {
		c.OK(rule, "switches|no-redundant-break", token.NoPos, n, "%d switch/select statements examined, none ends a case in a loop with a bare break", n)
	}
}

// ruleNoDeadStores: a value stored into a local or parameter that no path reads afterwards.
func ruleNoDeadStores(c *Ctx, rule string, pkgs ...string) {
	c.Rule(rule, "no lost update through a dead store: an assignment `x = e` to a local variable or by-value parameter whose value no path reads afterwards (before x is overwritten or the function returns) records an update nowhere — typically a root/page/batch handle that a caller or the next loop iteration was meant to see (a helper assigning its own parameter)")
	w := c.W
	n, bad := 0, 0
	for _, name := range w.SortedFuncNames() {
		f := w.Funcs[name]
		okPkg := false
		for _, p := range pkgs {
			if f.Pkg == w.Pkgs[p] {
				okPkg = true
			}
		}
		if !okPkg {
			continue
		}
		info := f.Pkg.TypesInfo
		// variables captured by closures or address-taken are out of scope
		skip := map[types.Object]bool{}
		ast.Inspect(f.Decl.Body, func(x ast.Node) bool {
			switch y := x.(type) {
			case *ast.FuncLit:
				ast.Inspect(y.Body, func(z ast.Node) bool {
					if id, ok := z.(*ast.Ident); ok {
						if o := info.ObjectOf(id); o != nil && o.Pos() < y.Pos() {
							skip[o] = true
						}
					}
					return true
				})
			case *ast.UnaryExpr:
				if y.Op == token.AND {
					if id, ok := ast.Unparen(y.X).(*ast.Ident); ok {
						skip[info.ObjectOf(id)] = true
					}
				}
			}
			return true
		})
		// named results are read by `return`
		if f.Decl.Type.Results != nil {
			for _, fl := range f.Decl.Type.Results.List {
				for _, nm := range fl.Names {
					skip[info.ObjectOf(nm)] = true
				}
			}
		}
		g := f.Graph()
		idx := 0
		for _, b := range g.c.Blocks {
			if !g.Reachable(b) {
				continue
			}
			for i, nd := range b.Nodes {
				as, ok := nd.(*ast.AssignStmt)
				if !ok || as.Tok != token.ASSIGN || len(as.Lhs) != 1 || len(as.Rhs) != 1 {
					continue
				}
				id, ok := ast.Unparen(as.Lhs[0]).(*ast.Ident)
				if !ok || id.Name == "_" {
					continue
				}
				v, ok := info.ObjectOf(id).(*types.Var)
				if !ok || v.IsField() || v.Parent() == v.Pkg().Scope() || skip[v] {
					continue
				}
				// only handles to pages, trees, batches and the like: pointer, slice, map or interface typed
				switch v.Type().Underlying().(type) {
				case *types.Pointer, *types.Slice, *types.Map:
				default:
					continue
				}
				// self-append and re-slicing read the variable
				n++
				start := Loc{b, i}
				read := false
				g.Forward(&start, nil, func(nn ast.Node, at Loc) Verdict {
					uses, redefines := false, false
					ast.Inspect(nn, func(z ast.Node) bool {
						if zi, ok := z.(*ast.Ident); ok && info.ObjectOf(zi) == types.Object(v) {
							uses = true
						}
						return true
					})
					if a2, ok := nn.(*ast.AssignStmt); ok && len(a2.Lhs) == 1 {
						if l, ok := ast.Unparen(a2.Lhs[0]).(*ast.Ident); ok && info.ObjectOf(l) == types.Object(v) {
							// plain overwrite that does not read the variable on its right
							rhsUses := false
							for _, r := range a2.Rhs {
								ast.Inspect(r, func(z ast.Node) bool {
									if zi, ok := z.(*ast.Ident); ok && info.ObjectOf(zi) == types.Object(v) {
										rhsUses = true
									}
									return true
								})
							}
							if !rhsUses {
								redefines = true
								uses = false
							}
						}
					}
					if uses {
						read = true
						return Hit
					}
					if redefines {
						return Cut
					}
					return Go
				}, nil)
				if !read {
					idx++
					bad++
					c.Fail(rule, f.Name+"|dead-store|"+v.Name()+"#"+itoa(idx), as.Pos(), "%s assigns %s = %s and nothing reads it afterwards: the update is lost (a parameter is a copy — the caller, and the next loop iteration, still hold the old value)", f.Name, v.Name(), f.Src(as.Rhs[0]))
				}
			}
		}
	}
	if bad == 0 {
		c.OK(rule, "stores|all-read", token.NoPos, n, "%d stores to pointer/slice/map typed locals examined, each is read on some path afterwards", n)
	}
}
