package main

import (
	"go/ast"
	"go/token"
	"go/types"
	"strings"

	"golang.org/x/tools/go/cfg"
)

func init() {
	register(&Property{
		ID:    "C03",
		Run:   runC03,
		Floor: 8,
		Assumptions: []string{
			"a crash cuts the log file at a byte boundary; bytes before the cut are intact",
		},
		NotDecided: "that the recovered state is a prefix of the statement's row operations — in particular the crash between an insert record and the catalog record of the root move it caused (believed to leave a mis-rooted tree); that is a history/crash-point question outside this family.",
	})
}

func runC03(c *Ctx) {
	defer ruleBatchNotOverwritten(c, "C03.28")
	defer ruleValidLenAfterBody(c, "C03.29")
	c03Framing(c, "C03.1")
	c03Order(c, "C03.2")
	c03TornTail(c, "C03.3")
	c02FreshLSN(c, "C03.4")
	c02RedoGuard(c, "C03.5")
	c02DoRedo(c, "C03.6")
	c02RecordDescribes(c, "C03.7")
	c02RecoveryEnds(c, "C03.8")
	ruleLogReader(c, "C03.9")
	ruleRecoveryVisitsAll(c, "C03.10")
	ruleSentinelWrapped(c, "C03.12", "storage")
	ruleStampHasRecord(c, "C03.13")
	ruleNoRedundantSwitchBreak(c, "C03.14", "storage", "engine")
	ruleOpenFlags(c, "C03.15")
	ruleCapabilityPresent(c, "C03.16")
	ruleReplaySkipsOnlyOnPageLSN(c, "C03.17")
	ruleLogLengthBound(c, "C03.18")
	ruleLogOpens(c, "C03.19")
	ruleLogNeverShrinks(c, "C03.20")
	ruleReplayUnconditional(c, "C03.21")
	ruleNoLoopVarCapture(c, "C03.22", "storage", "engine")
	ruleRawReadOnBuffer(c, "C03.23", "storage.(*WALEntry).decode")
	ruleLSNMonotone(c, "C03.24")
	ruleOneRecordPerRow(c, "C03.25")
	ruleRowRecordsAtomic(c, "C03.26")
	c01RootRelocation(c, "C03.27")
	ruleErrorsNotDropped(c, "C03.11", "storage.(*BTree).insert", "storage.(*RelationService).Insert")
}

func c03Framing(c *Ctx, rule string) {
	c.Rule(rule, "log framing symmetry: the writer emits per record a 4-byte little-endian length of the encoded body followed by the body, in that order; the reader consumes 4 bytes, interprets them with the same byte order as the body length and reads exactly that many bytes before decoding; record codec grammars agree")
	wf := c.NeedFunc(rule, "storage.(*wal).flush")
	rf := c.NeedFunc(rule, "storage.(*wal).read")
	if wf == nil || rf == nil {
		return
	}
	// writer: PutUint32(B, uint32(LEN)); Write(B); Write(BODY) with LEN == len(BODY)
	key := wf.Name + "|frame"
	puts := wf.Calls(wf.Decl.Body, false, "binary.littleEndian.PutUint32", "binary.bigEndian.PutUint32", "binary.ByteOrder.PutUint32")
	writes := wf.Calls(wf.Decl.Body, false, "io.Writer.Write", "os.File.Write", "storage.readWriteSyncCloser.Write")
	if len(puts) != 1 || len(writes) != 2 {
		c.Undecided(rule, key, "writer shape not recognised (%d PutUint32, %d Write)", len(puts), len(writes))
	} else {
		order := exprKey(puts[0].Fun.(*ast.SelectorExpr).X)
		lenBuf := exprKey(puts[0].Args[0])
		var problems []string
		if order != "binary.LittleEndian" {
			problems = append(problems, "length written with "+order)
		}
		if exprKey(writes[0].Args[0]) != lenBuf {
			problems = append(problems, "the first write is not the length buffer")
		}
		if !(puts[0].Pos() < writes[0].Pos() && writes[0].Pos() < writes[1].Pos()) {
			problems = append(problems, "length is not written before the body")
		}
		// LEN is len(<body bytes>) where the second write writes the same bytes
		bodyArg := exprKey(writes[1].Args[0])
		lenExpr := wf.stripConv(puts[0].Args[1])
		lenOK := false
		check := func(e ast.Expr) {
			if call, ok := ast.Unparen(e).(*ast.CallExpr); ok {
				if id, ok := call.Fun.(*ast.Ident); ok && id.Name == "len" && len(call.Args) == 1 && exprKey(call.Args[0]) == bodyArg {
					lenOK = true
				}
				// B.Len() is len(B.Bytes()) for a bytes.Buffer
				if sel, ok := call.Fun.(*ast.SelectorExpr); ok && sel.Sel.Name == "Len" && len(call.Args) == 0 && exprKey(sel.X)+".Bytes()" == bodyArg {
					if t := wf.TypeOf(sel.X); t != nil && strings.HasSuffix(types.TypeString(t, nil), "bytes.Buffer") {
						lenOK = true
					}
				}
			}
		}
		check(lenExpr)
		if id, ok := ast.Unparen(lenExpr).(*ast.Ident); ok {
			for _, as := range wf.assignsTo(wf.Decl.Body, wf.ObjOf(id)) {
				if len(as.Rhs) == 1 {
					check(as.Rhs[0])
				}
			}
		}
		if !lenOK {
			problems = append(problems, "the length prefix is not len() of the bytes written as body")
		}
		// the body is the record's encoding
		encOK := false
		for _, enc := range wf.Calls(wf.Decl.Body, false, "storage.WALEntry.encode") {
			if o := wf.resultVar(wf.Decl.Body, enc, 0); o != nil && len(bodyArg) > len(o.Name()) && bodyArg[:len(o.Name())] == o.Name() {
				encOK = true
			}
		}
		if !encOK {
			problems = append(problems, "the body is not the record's encode() output")
		}
		if len(problems) > 0 {
			c.Fail(rule, key, puts[0].Pos(), "%v", problems)
		} else {
			c.OK(rule, key, puts[0].Pos(), 4, "u32le(len(body)) then body = record.encode()")
		}
	}
	// reader
	key = rf.Name + "|frame"
	reads := rf.Calls(rf.Decl.Body, false, "io.ReadFull")
	gets := rf.Calls(rf.Decl.Body, false, "binary.littleEndian.Uint32", "binary.bigEndian.Uint32", "binary.ByteOrder.Uint32")
	if len(reads) != 2 || len(gets) != 1 {
		c.Undecided(rule, key, "reader shape not recognised (%d ReadFull, %d Uint32)", len(reads), len(gets))
	} else {
		var problems []string
		if order := exprKey(gets[0].Fun.(*ast.SelectorExpr).X); order != "binary.LittleEndian" {
			problems = append(problems, "length read with "+order)
		}
		lenBuf := exprKey(reads[0].Args[1])
		if exprKey(gets[0].Args[0]) != lenBuf {
			problems = append(problems, "the length is not taken from the 4 bytes read first")
		}
		// lenBuf is make([]byte, 4)
		if id, ok := ast.Unparen(reads[0].Args[1]).(*ast.Ident); ok {
			four := false
			for _, as := range rf.assignsTo(rf.Decl.Body, rf.ObjOf(id)) {
				if len(as.Rhs) == 1 {
					if mk, ok := ast.Unparen(as.Rhs[0]).(*ast.CallExpr); ok && len(mk.Args) == 2 {
						if cv := rf.constOf(mk.Args[1]); cv != nil && cv.String() == "4" {
							four = true
						}
					}
				}
			}
			if !four {
				problems = append(problems, "the length buffer is not 4 bytes")
			}
		}
		// body buffer is make([]byte, L) with L the decoded length
		lobj := rf.resultVar(rf.Decl.Body, gets[0], 0)
		if lobj == nil {
			// tupleLen := int(binary.LittleEndian.Uint32(..))
			inspectBody(rf.Decl.Body, func(x ast.Node) bool {
				if as, ok := x.(*ast.AssignStmt); ok && len(as.Rhs) == 1 && len(as.Lhs) == 1 {
					if rf.stripConv(as.Rhs[0]) == ast.Expr(gets[0]) {
						if id, ok := as.Lhs[0].(*ast.Ident); ok {
							lobj = rf.ObjOf(id)
						}
					}
				}
				return true
			})
		}
		bodyOK := false
		if id, ok := ast.Unparen(reads[1].Args[1]).(*ast.Ident); ok && lobj != nil {
			for _, as := range rf.assignsTo(rf.Decl.Body, rf.ObjOf(id)) {
				if len(as.Rhs) == 1 {
					if mk, ok := ast.Unparen(as.Rhs[0]).(*ast.CallExpr); ok && len(mk.Args) == 2 {
						if lid, ok := ast.Unparen(mk.Args[1]).(*ast.Ident); ok && rf.ObjOf(lid) == lobj {
							bodyOK = true
						}
					}
				}
			}
		}
		if !bodyOK {
			problems = append(problems, "the body buffer is not sized by the decoded length")
		}
		if len(rf.Calls(rf.Decl.Body, false, "storage.WALEntry.decode")) == 0 {
			problems = append(problems, "the body is not decoded as a record")
		}
		if len(problems) > 0 {
			c.Fail(rule, key, reads[0].Pos(), "%v", problems)
		} else {
			c.OK(rule, key, reads[0].Pos(), 4, "4 bytes -> u32le length -> exactly that many body bytes -> record.decode()")
		}
	}
	checkCodecPair(c, rule, "storage.(*WALEntry).encode", "storage.(*WALEntry).decode")
}

func c03Order(c *Ctx, rule string) {
	c.Rule(rule, "records reach the log in the order the statement applied them: the log writer iterates the batch with range (ascending index) and writes each record inside that iteration; the statement functions append per-row batches in loop order (C02.1's flow)")
	wf := c.NeedFunc(rule, "storage.(*wal).flush")
	if wf == nil {
		return
	}
	key := wf.Name + "|batch-order"
	var rng *ast.RangeStmt
	inspectBody(wf.Decl.Body, func(x ast.Node) bool {
		if r, ok := x.(*ast.RangeStmt); ok && rng == nil {
			rng = r
		}
		return true
	})
	if rng == nil {
		c.Fail(rule, key, wf.Decl.Pos(), "the log writer does not range over the batch: record order is not the batch order")
		return
	}
	var param types.Object
	if ps := wf.Decl.Type.Params.List; len(ps) == 1 && len(ps[0].Names) == 1 {
		param = wf.ObjOf(ps[0].Names[0])
	}
	id, ok := ast.Unparen(rng.X).(*ast.Ident)
	overBatch := ok && wf.ObjOf(id) == param
	writesInside := len(wf.Calls(rng.Body, false, "io.Writer.Write", "os.File.Write", "storage.readWriteSyncCloser.Write")) >= 2
	encInside := false
	for _, enc := range wf.Calls(rng.Body, false, "storage.WALEntry.encode") {
		if vid, ok := rng.Value.(*ast.Ident); ok && exprKey(enc.Fun.(*ast.SelectorExpr).X) == vid.Name {
			encInside = true
		}
	}
	c.Check(overBatch && writesInside && encInside, rule, key, rng.Pos(), "range over the batch parameter; the iteration's own record is encoded and written inside the iteration", "the log writer does not write each record of the batch parameter, in range order, inside its iteration")
	c02LogBeforeAck(c, rule+"f")
}

func c03TornTail(c *Ctx, rule string) {
	c.Rule(rule, "a log cut inside its last record is the end of the log, not an error: for each io.ReadFull in the log reader, no path on which its error is io.EOF or io.ErrUnexpectedEOF reaches a return with a non-nil error (the length read sees EOF at a record boundary and ErrUnexpectedEOF after 1-3 bytes; the body read sees EOF right after the length and ErrUnexpectedEOF inside the body)")
	rf := c.NeedFunc(rule, "storage.(*wal).read")
	if rf == nil {
		return
	}
	g := rf.Graph()
	reads := rf.Calls(rf.Decl.Body, false, "io.ReadFull")
	if len(reads) == 0 {
		c.Undecided(rule, rf.Name+"|reads", "no io.ReadFull in the log reader")
		return
	}
	for i, rd := range reads {
		errObj := rf.resultVar(rf.Decl.Body, rd, 1)
		for _, sentinel := range []string{"io.EOF", "io.ErrUnexpectedEOF"} {
			key := rf.Name + "|ReadFull#" + itoa(i+1) + "|" + sentinel
			if errObj == nil {
				c.Fail(rule, key, rd.Pos(), "the error of the read is not examined")
				continue
			}
			loc, _ := g.Locate(rd)
			// explore paths assuming err == sentinel: edges of `err == X` / `err != X` are resolved,
			// `err != nil` is true, `err == nil` false.
			edge := func(b *cfg.Block, si int) bool {
				info, ok := g.EdgeInfo(b, si)
				if !ok {
					return true
				}
				cond, ok := info.Test() // `switch err { case io.EOF: … }` tests err == io.EOF
				if !ok {
					return true
				}
				if v, known := evalErrCond(rf, cond, errObj, sentinel); known {
					return v == info.Val
				}
				return true
			}
			var bad ast.Node
			hit, _ := g.Forward(&loc, edge, func(nn ast.Node, at Loc) Verdict {
				// the error variable is re-assigned by a later read: stop
				if as, ok := nn.(*ast.AssignStmt); ok && nn.Pos() > rd.End() {
					for _, l := range as.Lhs {
						if id, ok := l.(*ast.Ident); ok && rf.ObjOf(id) == errObj {
							return Cut
						}
					}
				}
				if r, ok := nn.(*ast.ReturnStmt); ok {
					if len(r.Results) > 0 {
						last := ast.Unparen(r.Results[len(r.Results)-1])
						if id, ok := last.(*ast.Ident); ok {
							if rf.ObjOf(id) == errObj {
								bad = r
								return Hit
							}
							if v, isVar := rf.ObjOf(id).(*types.Var); isVar && v.Parent() != v.Pkg().Scope() {
								return Cut // the error of some other operation (e.g. truncating the tail), not of this read
							}
						}
						mentions := false
						ast.Inspect(last, func(y ast.Node) bool {
							if id, ok := y.(*ast.Ident); ok && rf.ObjOf(id) == errObj {
								mentions = true
							}
							return true
						})
						if mentions || (!isNilIdent(rf, last) && !g.ReturnMayBeNil(r)) {
							bad = r
							return Hit
						}
					}
					return Cut
				}
				return Go
			}, nil)
			if hit {
				c.Fail(rule, key, bad.Pos(), "when ReadFull #%d returns %s the reader returns it as an error: a log torn at that point makes InitStorage fail and the database does not start", i+1, sentinel)
			} else {
				c.OK(rule, key, rd.Pos(), 1, "%s at read #%d ends the log without error", sentinel, i+1)
			}
		}
	}
}

// evalErrCond evaluates a condition over errObj under the assumption errObj == sentinel (non-nil).
func evalErrCond(f *Func, cond ast.Expr, errObj types.Object, sentinel string) (val bool, known bool) {
	e := ast.Unparen(cond)
	switch x := e.(type) {
	case *ast.UnaryExpr:
		if x.Op == token.NOT {
			v, k := evalErrCond(f, x.X, errObj, sentinel)
			return !v, k
		}
	case *ast.BinaryExpr:
		switch x.Op {
		case token.LAND:
			a, ka := evalErrCond(f, x.X, errObj, sentinel)
			b, kb := evalErrCond(f, x.Y, errObj, sentinel)
			if ka && !a || kb && !b {
				return false, true
			}
			if ka && kb {
				return true, true
			}
			return false, false
		case token.LOR:
			a, ka := evalErrCond(f, x.X, errObj, sentinel)
			b, kb := evalErrCond(f, x.Y, errObj, sentinel)
			if ka && a || kb && b {
				return true, true
			}
			if ka && kb {
				return false, true
			}
			return false, false
		case token.EQL, token.NEQ:
			isErr := func(y ast.Expr) bool {
				id, ok := ast.Unparen(y).(*ast.Ident)
				return ok && f.ObjOf(id) == errObj
			}
			var other ast.Expr
			if isErr(x.X) {
				other = x.Y
			} else if isErr(x.Y) {
				other = x.X
			} else {
				return false, false
			}
			eq := false
			if isNilIdent(f, ast.Unparen(other)) {
				eq = false
			} else if exprKey(other) == sentinel {
				eq = true
			} else if exprKey(other) == "io.EOF" || exprKey(other) == "io.ErrUnexpectedEOF" {
				eq = false
			} else {
				return false, false
			}
			if x.Op == token.NEQ {
				return !eq, true
			}
			return eq, true
		}
	case *ast.CallExpr:
		if f.CallIs(x, "errors.Is") && len(x.Args) == 2 {
			if id, ok := ast.Unparen(x.Args[0]).(*ast.Ident); ok && f.ObjOf(id) == errObj {
				t := exprKey(x.Args[1])
				if t == sentinel {
					return true, true
				}
				if t == "io.EOF" || t == "io.ErrUnexpectedEOF" {
					return false, true
				}
			}
		}
	}
	return false, false
}
