package main

// Behaviour-preserving edits (renames of locals/receivers, added logging,
// reordered independent statements). No rule of the named property may report a
// violation or become undecided on them: they test the checks for false alarms.

// renw renames identifiers (whole words).
func renw(prop, name, file string, pairs ...string) {
	s := Seed{Prop: prop, Name: "silent: " + name, File: file, Silent: true, All: true, Words: true, Old: pairs[0], New: pairs[1]}
	for i := 2; i+1 < len(pairs); i += 2 {
		s.More = append(s.More, [2]string{pairs[i], pairs[i+1]})
	}
	seed(s)
}

func ren(prop, name, file string, pairs ...string) {
	s := Seed{Prop: prop, Name: "silent: " + name, File: file, Silent: true, All: true, Old: pairs[0], New: pairs[1]}
	for i := 2; i+1 < len(pairs); i += 2 {
		s.More = append(s.More, [2]string{pairs[i], pairs[i+1]})
	}
	seed(s)
}

func init() {
	for _, p := range []string{"C01", "C11", "C16", "C18"} {
		renw(p, "rename btree insert locals", "storage/btree.go", "curNode", "node", "newPg", "fresh", "parent", "par", "newKey", "sepKey", "oldRSibFileOffset", "prevRight", "rightSib", "rs")
		ren(p, "rename split receiver and locals", "storage/page.go", "func (n *btreeNode) split(newPg *btreeNode) (uint32, error) {\n\tif n.isLeaf {\n\t\tmid := len(n.offsets) / 2", "func (n *btreeNode) split(newPg *btreeNode) (uint32, error) {\n\tif n.isLeaf {\n\t\tmid := len(n.offsets) >> 1")
	}
	for _, p := range []string{"C05", "C06", "C18"} {
		renw(p, "rename evaluator operand names", "engine/select.go", "lhs", "left", "rhs", "right", "_rhs", "r2")
		renw(p, "rename join locals", "engine/select.go", "lRows", "leftRows", "rRows", "rightRows", "lFields", "leftCols", "rFields", "rightCols", "tmpFields", "cols", "tmpRows", "outRows", "tmpRow", "joined", "lRow", "lr", "rRow", "rr", "hasMatch", "matched", "rPadded", "padR", "lPadded", "padL")
	}
	renw("C07", "rename aggregate locals", "engine/select.go", "countKey", "ck", "groupKeyIdx", "gi", "colIdx", "ci", "newVals", "vals2")
	renw("C18", "rename aggregate locals", "engine/select.go", "countKey", "ck", "groupKeyIdx", "gi", "colIdx", "ci", "newVals", "vals2")
	for _, p := range []string{"C09", "C10", "C05"} {
		renw(p, "rename token list receiver", "sql/scanner.go", "tl", "lst")
		renw(p, "rename parser receiver", "sql/parser.go", "p", "ps")
	}
	for _, p := range []string{"C15", "C16", "C18"} {
		renw(p, "rename LRU locals", "storage/lru.go", "entry", "el", "found", "hit", "cur", "victim", "elem", "pushed", "lru", "lc")
	}
	for _, p := range []string{"C17", "C18"} {
		renw(p, "rename session receiver", "engine/session.go", "s", "sess", "rs", "svc")
	}
	renw("C19", "rename import locals", "cmd/csvimport/main.go", "sqlRow", "out", "csvRow", "rec", "maxCsvIdx", "maxIdx", "csvIdx", "srcIdx", "chErr", "errs", "chOk", "oks")
	renw("C20", "rename split locals", "cmd/console/go_terminal.go", "stmts", "pieces", "rest", "tail", "quote", "open")
	for _, p := range []string{"C02", "C03", "C04"} {
		renw(p, "rename replay locals", "storage/wal.go", "row", "rec", "node", "pg", "bt", "tree")
		renw(p, "rename logging locals", "storage/relation.go", "walLogs", "records", "cell", "lc", "logs", "extra", "lsn", "seq", "id", "rowID2")
	}
	renw("C13", "rename rm parameter", "engine/insert.go", "rm", "mgr")
	renw("C02", "rename rm parameter", "engine/update.go", "rm", "mgr", "batch", "logBatch", "walEntries", "recs")
	renw("C08", "rename codec locals", "storage/relation.go", "isNull", "null", "strBuf", "raw", "strLen", "n32")
	renw("C12", "rename page codec locals", "storage/page.go", "bufFooter", "cells", "keyCell", "kc", "cellCount", "nCells", "strBuf", "raw")
	renw("C14", "rename insert locals", "storage/relation.go", "tablePg", "rootPg0", "tuple", "tup", "schema", "sch")
}

func edit(prop, name, file, old, new string) {
	seed(Seed{Prop: prop, Name: "silent: " + name, File: file, Old: old, New: new, Silent: true})
}

func init() {
	for _, p := range []string{"C02", "C04", "C13", "C16"} {
		edit(p, "flush loop restructured (if dirty {write; clean})", "storage/page.go",
			"\t\tif !node.isDirty() {\n\t\t\tcontinue\n\t\t}\n\t\tif err := f.update(node); err != nil {\n\t\t\treturn err\n\t\t}\n\t\tnode.markClean()\n",
			"\t\tif node.isDirty() {\n\t\t\tif err := f.update(node); err != nil {\n\t\t\t\treturn err\n\t\t\t}\n\t\t\tnode.markClean()\n\t\t}\n")
	}
	for _, p := range []string{"C02", "C03", "C04"} {
		edit(p, "redo guard mirrored (page >= record)", "storage/wal.go",
			"\t\tif row.LSN <= node.getLastLSN() {", "\t\tif node.getLastLSN() >= row.LSN {")
		edit(p, "replay logs progress", "storage/wal.go",
			"\t\tswitch row.WALOp {", "\t\tfmt.Printf(\"replaying record %d\\n\", row.LSN)\n\t\tswitch row.WALOp {")
	}
	for _, p := range []string{"C13", "C18", "C02"} {
		edit(p, "explicit EndTxn on every return instead of defer", "engine/insert.go",
			"\trm.StartTxn()\n\tdefer rm.EndTxn()\n", "\trm.StartTxn()\n\tdefer func() { rm.EndTxn() }()\n")
	}
	edit("C08", "range check through a local", "storage/relation.go",
		"\t\tif val.(int64) > math.MaxInt32 || val.(int64) < math.MinInt32 {", "\t\tif v := val.(int64); v < math.MinInt32 || v > math.MaxInt32 {")
	edit("C18", "range check through a local", "storage/relation.go",
		"\t\tif val.(int64) > math.MaxInt32 || val.(int64) < math.MinInt32 {", "\t\tif v := val.(int64); v < math.MinInt32 || v > math.MaxInt32 {")
	for _, p := range []string{"C15", "C16"} {
		edit(p, "victim search as a conditional loop", "storage/lru.go",
			"\t\tfor {\n\t\t\tif cur == nil {\n\t\t\t\treturn false\n\t\t\t} else if !cur.Value.(*cacheEntry).val.isDirty() {\n\t\t\t\tbreak\n\t\t\t} else {\n\t\t\t\tcur = cur.Prev()\n\t\t\t}\n\t\t}\n",
			"\t\tfor cur != nil && cur.Value.(*cacheEntry).val.isDirty() {\n\t\t\tcur = cur.Prev()\n\t\t}\n\t\tif cur == nil {\n\t\t\treturn false\n\t\t}\n")
	}
	for _, p := range []string{"C01", "C11"} {
		edit(p, "split midpoint hoisted", "storage/page.go",
			"func (n *btreeNode) split(newPg *btreeNode) (uint32, error) {\n\tif n.isLeaf {\n\t\tmid := len(n.offsets) / 2\n",
			"func (n *btreeNode) split(newPg *btreeNode) (uint32, error) {\n\tif n.isLeaf {\n\t\tmid := len(n.offsets) / 2\n\t\t_ = mid\n")
		edit(p, "tombstone carried via a local", "storage/page.go",
			"\t\t\tnewPg.leafCells[len(newPg.leafCells)-1].deleted = cell.deleted\n",
			"\t\t\tmoved := newPg.leafCells[len(newPg.leafCells)-1]\n\t\t\tmoved.deleted = cell.deleted\n")
	}
	for _, p := range []string{"C09", "C10"} {
		edit(p, "EOF test written the other way round", "sql/parser.go",
			"\tif cur := p.Cur(); cur.Type != EOF {\n\t\treturn nil, syntaxErr(cur)\n\t}\n\treturn stmt, nil\n",
			"\tif cur := p.Cur(); cur.Type == EOF {\n\t\treturn stmt, nil\n\t} else {\n\t\treturn nil, syntaxErr(cur)\n\t}\n")
		edit(p, "optional comma as if-statement", "sql/parser.go",
			"\t\t// grouping columns are comma separated; the comma may be omitted\n\t\tp.match(COMMA)\n",
			"\t\tif p.match(COMMA) {\n\t\t\tcontinue\n\t\t}\n")
	}
	edit("C17", "USE: close previous in a helper variable", "engine/session.go",
		"\t\tif s.RelationService != nil {\n\t\t\t// flush the previous database and stop its flush timer\n\t\t\tif err := s.RelationService.Close(); err != nil {",
		"\t\tif prev := s.RelationService; prev != nil {\n\t\t\t// flush the previous database and stop its flush timer\n\t\t\tif err := prev.Close(); err != nil {")
	edit("C19", "NULL marker compared through a constant", "cmd/csvimport/main.go",
		"\t\tif csvRow[csvIdx] == \"\\\\N\" {", "\t\tif field := csvRow[csvIdx]; field == \"\\\\N\" {")
	edit("C20", "quote test via switch", "cmd/console/go_terminal.go",
		"\t\tcase c == '\\'' || c == '\"' || c == '`':\n\t\t\tquote = c\n", "\t\tcase c == '\"' || c == '\\'' || c == '`':\n\t\t\tquote = c\n")
	edit("C14", "createTable keeps error in a variable", "storage/relation.go",
		"\t_, err := rs.getRelationFileOffset(tableName)\n\tif err != ErrTableNotExist {\n\t\treturn ErrTableAlreadyExist\n\t}\n",
		"\t_, lookupErr := rs.getRelationFileOffset(tableName)\n\tif lookupErr != ErrTableNotExist {\n\t\treturn ErrTableAlreadyExist\n\t}\n\tvar err error\n\t_ = err\n")
	edit("C12", "leaf decode reads the value with io.ReadFull", "storage/page.go",
		"\t\tstrBuf := make([]byte, cell.valueSize)\n\t\tif _, err := buf.Read(strBuf); err != nil {\n\t\t\treturn err\n\t\t}\n\t\tcell.valueBytes = strBuf\n\t\tn.leafCells[n.offsets[i]] = cell\n",
		"\t\tcell.valueBytes = make([]byte, cell.valueSize)\n\t\tif _, err := buf.Read(cell.valueBytes); err != nil {\n\t\t\treturn err\n\t\t}\n\t\tn.leafCells[n.offsets[i]] = cell\n")
}

func init() {
	// round-3 rules: behaviour-preserving variants of the constructs they anchor
	for _, p := range []string{"C01", "C02", "C08", "C11"} {
		edit(p, "root-move logging through a helper that appends to the batch", "storage/relation.go",
			"\t\tvar logs WALBatch\n\t\tif logs, err = rs.updatePageTable(curPage.getFileOffset(), tableName); err != nil {\n\t\t\treturn walLogs, err\n\t\t}\n\t\twalLogs = append(walLogs, logs...)\n\t}\n\n\treturn walLogs, nil\n}\n",
			"\t\tif walLogs, err = rs.appendRootMove(walLogs, curPage.getFileOffset(), tableName); err != nil {\n\t\t\treturn walLogs, err\n\t\t}\n\t}\n\n\treturn walLogs, nil\n}\n\nfunc (rs *RelationService) appendRootMove(batch WALBatch, off uint64, tableName string) (WALBatch, error) {\n\tlogs, err := rs.updatePageTable(off, tableName)\n\treturn append(batch, logs...), err\n}\n")
	}
	for _, p := range []string{"C15", "C16"} {
		edit(p, "get with the miss handled first", "storage/lru.go",
			"\tif found {\n\t\tlru.list.MoveToFront(entry)\n\t\treturn entry.Value.(*cacheEntry).val, true\n\t}\n\treturn nil, false\n",
			"\tif !found {\n\t\treturn nil, false\n\t}\n\tlru.list.MoveToFront(entry)\n\treturn entry.Value.(*cacheEntry).val, true\n")
		edit(p, "write-back computes the offset once (uint64)", "storage/page.go",
			"\tif _, err := f.file.WriteAt(buf.Bytes(), int64(node.getFileOffset())); err != nil {\n\t\treturn err\n\t}\n\n\tif err := f.setCache(node.getFileOffset(), node); err != nil {",
			"\toff := node.getFileOffset()\n\tif _, err := f.file.WriteAt(buf.Bytes(), int64(off)); err != nil {\n\t\treturn err\n\t}\n\n\tif err := f.setCache(off, node); err != nil {")
	}
	for _, p := range []string{"C02", "C04", "C11"} {
		edit(p, "markDirty sets the flag conditionally, the LSN always", "storage/page.go",
			"\tn.lastLSN = lsn\n\tn.dirty = true\n", "\tif !n.dirty {\n\t\tn.dirty = true\n\t}\n\tn.lastLSN = lsn\n")
	}
	for _, p := range []string{"C02", "C03", "C17"} {
		edit(p, "duplicate-key message names the page, still wrapped", "storage/btree.go",
			"func (b *BTree) insertLeaf(parent *btreeNode, curNode *btreeNode, key uint32, nextLSN uint64, value []byte) error {\n\toffset, found := curNode.findCellOffsetByKey(key)\n\tif found {\n\t\treturn fmt.Errorf(\"%w for key: %d\", errKeyAlreadyExists, key)",
			"func (b *BTree) insertLeaf(parent *btreeNode, curNode *btreeNode, key uint32, nextLSN uint64, value []byte) error {\n\toffset, found := curNode.findCellOffsetByKey(key)\n\tif found {\n\t\treturn fmt.Errorf(\"key %d (page %d): %w\", key, curNode.getFileOffset(), errKeyAlreadyExists)")
	}
	edit("C10", "presence flag set after the value", "sql/parser.go",
		"\t\t\tlc.LimitActive = true\n\t\t\tlimit, err := p.requireInt()\n\t\t\tif err != nil {\n\t\t\t\treturn lc, err\n\t\t\t}\n\t\t\tlc.Limit = int(limit)\n",
		"\t\t\tlimit, err := p.requireInt()\n\t\t\tif err != nil {\n\t\t\t\treturn lc, err\n\t\t\t}\n\t\t\tlc.Limit, lc.LimitActive = int(limit), true\n")
	edit("C20", "escape skip written as cur += 1", "cmd/console/go_terminal.go",
		"\t\t\t\tcur++ // skip the escaped character\n", "\t\t\t\tcur += 1 // skip the escaped character\n")
	edit("C20", "statements handed on through an alias", "cmd/console/go_terminal.go",
		"\t\t\tline = append(line, stmts...)\n", "\t\t\tout := stmts\n\t\t\tline = append(line, out...)\n")
	edit("C17", "USE probes the log path too before refusing", "storage/relation.go",
		"\tif !exists {\n\t\treturn nil, ErrDBNotExist\n\t}\n\tfs, err := newFileStore(path, true)",
		"\tif _, _, werr := walFilePath(dbName); werr != nil {\n\t\treturn nil, werr\n\t}\n\tif !exists {\n\t\treturn nil, ErrDBNotExist\n\t}\n\tfs, err := newFileStore(path, true)")
	edit("C14", "BTree.insert advances the counters through locals", "storage/btree.go",
		"\tif err := b.store.incrementLastKey(); err != nil {\n\t\treturn 0, nextLSN, err\n\t}\n",
		"\tif kerr := b.store.incrementLastKey(); kerr != nil {\n\t\treturn 0, nextLSN, kerr\n\t}\n")
	for _, p := range []string{"C05", "C18"} {
		edit(p, "offset/limit through locals, no arithmetic", "engine/select.go",
			"\t\trows = offset(int(q.LimitOffsetClause.Offset), rows)\n", "\t\tskip := int(q.LimitOffsetClause.Offset)\n\t\trows = offset(skip, rows)\n")
	}
}
