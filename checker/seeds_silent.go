package main

// Behaviour-preserving edits (renames of locals/receivers, added logging,
// reordered independent statements). No rule of the named property may report a
// violation or become undecided on them: they test the checks for false alarms.

// renw renames identifiers (whole words).
func renw(prop, name, file string, pairs ...string) {
	s := Seed{Prop: prop, Name: "silent: " + name, File: file, Silent: true, All: true, Words: true, Old: pairs[0], New: pairs[1]}
	for i := 2; i+1 < len(pairs); i += 2 {
		s.More = append(s.More, [2]string{pairs[i], pairs[i+1]})
	}
	seed(s)
}

func ren(prop, name, file string, pairs ...string) {
	s := Seed{Prop: prop, Name: "silent: " + name, File: file, Silent: true, All: true, Old: pairs[0], New: pairs[1]}
	for i := 2; i+1 < len(pairs); i += 2 {
		s.More = append(s.More, [2]string{pairs[i], pairs[i+1]})
	}
	seed(s)
}

func init() {
	for _, p := range []string{"C01", "C11", "C16", "C18"} {
		renw(p, "rename btree insert locals", "storage/btree.go", "curNode", "node", "newPg", "fresh", "parent", "par", "newKey", "sepKey", "oldRSibFileOffset", "prevRight", "rightSib", "rs")
		ren(p, "rename split receiver and locals", "storage/page.go", "func (n *btreeNode) split(newPg *btreeNode) (uint32, error) {\n\tif n.isLeaf {\n\t\tmid := len(n.offsets) / 2", "func (n *btreeNode) split(newPg *btreeNode) (uint32, error) {\n\tif n.isLeaf {\n\t\tmid := len(n.offsets) >> 1")
	}
	for _, p := range []string{"C05", "C06", "C18"} {
		renw(p, "rename evaluator operand names", "engine/select.go", "lhs", "left", "rhs", "right", "_rhs", "r2")
		renw(p, "rename join locals", "engine/select.go", "lRows", "leftRows", "rRows", "rightRows", "lFields", "leftCols", "rFields", "rightCols", "tmpFields", "cols", "tmpRows", "outRows", "tmpRow", "joined", "lRow", "lr", "rRow", "rr", "hasMatch", "matched", "rPadded", "padR", "lPadded", "padL")
	}
	renw("C07", "rename aggregate locals", "engine/select.go", "countKey", "ck", "groupKeyIdx", "gi", "colIdx", "ci", "newVals", "vals2")
	renw("C18", "rename aggregate locals", "engine/select.go", "countKey", "ck", "groupKeyIdx", "gi", "colIdx", "ci", "newVals", "vals2")
	for _, p := range []string{"C09", "C10", "C05"} {
		renw(p, "rename token list receiver", "sql/scanner.go", "tl", "lst")
		renw(p, "rename parser receiver", "sql/parser.go", "p", "ps")
	}
	for _, p := range []string{"C15", "C16", "C18"} {
		renw(p, "rename LRU locals", "storage/lru.go", "entry", "el", "found", "hit", "cur", "victim", "elem", "pushed", "lru", "lc")
	}
	for _, p := range []string{"C17", "C18"} {
		renw(p, "rename session receiver", "engine/session.go", "s", "sess", "rs", "svc")
	}
	renw("C19", "rename import locals", "cmd/csvimport/main.go", "sqlRow", "out", "csvRow", "rec", "maxCsvIdx", "maxIdx", "csvIdx", "srcIdx", "chErr", "errs", "chOk", "oks")
	renw("C20", "rename split locals", "cmd/console/go_terminal.go", "stmts", "pieces", "rest", "tail", "quote", "open")
	for _, p := range []string{"C02", "C03", "C04"} {
		renw(p, "rename replay locals", "storage/wal.go", "row", "rec", "node", "pg", "bt", "tree")
		renw(p, "rename logging locals", "storage/relation.go", "walLogs", "records", "cell", "lc", "logs", "extra", "lsn", "seq", "id", "rowID2")
	}
	renw("C13", "rename rm parameter", "engine/insert.go", "rm", "mgr")
	renw("C02", "rename rm parameter", "engine/update.go", "rm", "mgr", "batch", "logBatch", "walEntries", "recs")
	renw("C08", "rename codec locals", "storage/relation.go", "isNull", "null", "strBuf", "raw", "strLen", "n32")
	renw("C12", "rename page codec locals", "storage/page.go", "bufFooter", "cells", "keyCell", "kc", "cellCount", "nCells", "strBuf", "raw")
	renw("C14", "rename insert locals", "storage/relation.go", "tablePg", "rootPg0", "tuple", "tup", "schema", "sch")
}
