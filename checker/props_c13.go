package main

import (
	"go/ast"
	"strings"
)

func init() {
	register(&Property{
		ID:    "C13",
		Run:   runC13,
		Floor: 8,
		Assumptions: []string{
			"one session goroutine per RelationService; the only other goroutine touching a store is the one started by newFileStore",
			"CREATE DATABASE, USE, Close and startup recovery are outside the property's statement list: CreateDB, OpenRelation, Close, InitStorage are excluded by name",
		},
		NotDecided: "races on state not reachable through the shared structs (btreeNode, leafCell, internalCell, LRUCache, cacheEntry, mutable fileStore fields, data file); schedules of CREATE DATABASE / USE / Close; liveness.",
	})
}

// entry points that are outside the property's statement list
var c13Excluded = map[string]string{
	"storage.CreateDB":                 "CREATE DATABASE is not in the property's statement list",
	"storage.OpenRelation":             "USE is not in the property's statement list",
	"storage.InitStorage":              "startup recovery runs before any session exists (store opened with autoFlushCache=false)",
	"storage.(*RelationService).Close": "shutdown is not in the property's statement list; it stops the timer before its final flush",
	"storage.ShowDB":                   "reads the directory only",
	"storage.MakeDataDir":              "directory only",
	"storage.ClearDataDir":             "directory only",
}

func runC13(c *Ctx) {
	defer ruleStoreInitUnderLock(c, "C13.8")
	w := c.W
	for _, r := range []string{"C13.0", "C13.1", "C13.2", "C13.3", "C13.4", "C04.8"} {
		c.Robust(r)
	}
	c.Rule("C13.1", "every call from outside package storage into a storage entry point whose call cone touches shared page/cache/header state, the data file or the log is inside a shared-lock bracket (StartTxn .. EndTxn, interprocedurally: or its enclosing function is only ever called inside one), or the entry point acquires the store lock itself around every such access")
	c.Rule("C13.2", "the log append of a statement happens in the SAME bracket as the statement's page changes: no release of the store lock lies on a path from a page-touching call to the log append that follows it")
	c.Rule("C13.3", "code started by a go statement in package storage touches shared state only through functions that hold the exclusive store lock around every access")
	c.Rule("C13.4", "every write to the data file ((*os.File).WriteAt) happens inside the exclusive section, or in a function reached only from it or from the excluded CREATE DATABASE path")
	m := w.Locks()
	for _, p := range m.problems {
		c.Undecided("C13.0", "anchor|lockmodel", "%s", p)
	}
	if len(m.problems) > 0 {
		return
	}
	if len(m.acquire) == 0 {
		c.Fail("C13.0", "storage|no-lock-acquire", w.Pkgs["storage"].Syntax[0].Pos(), "no function acquires fileStore's RWMutex: statements and the flusher are not synchronised at all")
		return
	}
	cg := w.CG()
	storage := w.Pkgs["storage"]

	// ---- C13.1 --------------------------------------------------------------
	// bracketed(F): every call site of F (outside tests) lies inside a shared/any bracket or in a bracketed function.
	insideBracket := func(cs *CallSite) (bool, string) {
		g := cs.Caller.Graph()
		node := ast.Node(cs.Call)
		if cs.InLit != nil {
			// the closure runs where it is passed/called: locate the literal in the enclosing body
			outer := outermostLit(cs.Caller, cs.Call)
			node = outer
			// a literal handed to a bracket helper (`withSharedLock(func() error {…})`: acquire, deferred
			// release, call of its function parameter) runs inside that helper's bracket
			if outer != nil && w.litRunsInBracketHelper(cs.Caller, outer) {
				return true, "inside the bracket of the helper the literal is handed to"
			}
		}
		loc, ok := g.Locate(node)
		if !ok {
			return false, "call site not located in the control-flow graph"
		}
		br := m.BracketsOf(g)
		in, _ := br.Inside(loc, lockNone)
		if in {
			return true, "inside a bracket of " + cs.Caller.Name
		}
		return false, "no dominating lock acquisition (or released before) in " + cs.Caller.Name
	}
	bracketed := map[*Func]bool{}
	for _, n := range w.SortedFuncNames() {
		bracketed[w.Funcs[n]] = true // greatest fixpoint
	}
	for changed := true; changed; {
		changed = false
		for _, n := range w.SortedFuncNames() {
			f := w.Funcs[n]
			if !bracketed[f] {
				continue
			}
			sites := cg.In[f]
			ok := len(sites) > 0
			for _, cs := range sites {
				if in, _ := insideBracket(cs); in {
					continue
				}
				if cs.Caller != f && bracketed[cs.Caller] {
					continue
				}
				if cs.Caller == f { // recursion: decided by the other call sites
					continue
				}
				ok = false
			}
			if !ok {
				bracketed[f] = false
				changed = true
			}
		}
	}
	// selfLocked(F): every direct touch and every call to a touching function inside F is bracketed in F, or the callee is selfLocked.
	selfLocked := map[*Func]bool{}
	for _, n := range w.SortedFuncNames() {
		if f := w.Funcs[n]; m.touching[f] {
			selfLocked[f] = true
		}
	}
	why := map[*Func]string{}
	for changed := true; changed; {
		changed = false
		for _, f := range sortedFuncs(selfLocked) {
			if !selfLocked[f] {
				continue
			}
			g := f.Graph()
			br := m.BracketsOf(g)
			bad := ""
			for _, n := range m.direct[f] {
				node := n
				if l := outermostLit(f, n); l != nil {
					node = l
				}
				loc, ok := g.Locate(node)
				if in, _ := br.Inside(loc, lockNone); !ok || !in {
					bad = "unlocked access " + f.Src(n) + " at " + w.Pos(n.Pos())
					break
				}
			}
			if bad == "" {
				for _, cs := range cg.Sites[f] {
					touch := false
					allSelf := true
					for _, t := range cs.Targets {
						if m.touching[t] {
							touch = true
							if !selfLocked[t] {
								allSelf = false
							}
						}
					}
					if !touch || allSelf {
						continue
					}
					if in, _ := insideBracket(cs); !in {
						bad = "unlocked call " + f.Src(cs.Call.Fun) + " at " + w.Pos(cs.Call.Pos())
						break
					}
				}
			}
			if bad != "" {
				selfLocked[f] = false
				why[f] = bad
				changed = true
			}
		}
	}

	nEntry := 0
	for _, n := range w.SortedFuncNames() {
		caller := w.Funcs[n]
		if caller.Pkg == storage {
			continue
		}
		for _, cs := range cg.Sites[caller] {
			var touchT []*Func
			for _, t := range cs.Targets {
				if t.Pkg == storage && (m.touching[t] || isLogAppend(t)) {
					touchT = append(touchT, t)
				}
			}
			if len(touchT) == 0 {
				continue
			}
			excluded := true
			for _, t := range touchT {
				if _, ex := c13Excluded[t.Name]; !ex {
					excluded = false
				}
			}
			key := caller.Name + "|call|" + calleeKey(cs.Callee)
			if excluded {
				c.Note("C13.1 not applied to %s -> %s: %s", caller.Name, touchT[0].Name, c13Excluded[touchT[0].Name])
				continue
			}
			nEntry++
			allSelf := true
			for _, t := range touchT {
				if !selfLocked[t] {
					allSelf = false
				}
			}
			if in, how := insideBracket(cs); in {
				c.OK("C13.1", key, cs.Call.Pos(), 1, "%s", how)
			} else if bracketed[caller] {
				c.OK("C13.1", key, cs.Call.Pos(), len(cg.In[caller]), "enclosing function is only called inside brackets (%d call sites examined)", len(cg.In[caller]))
			} else if allSelf {
				c.OK("C13.1", key, cs.Call.Pos(), 1, "callee %s takes the store lock itself around every access", touchT[0].Name)
			} else {
				reason := how
				for _, t := range touchT {
					if !selfLocked[t] && why[t] != "" {
						reason += "; " + t.Name + " is not self-locking: " + why[t]
					}
				}
				c.Fail("C13.1", key, cs.Call.Pos(), "statement-path call into %s touches shared state without the store lock: %s", touchT[0].Name, reason)
			}
		}
	}
	if nEntry == 0 {
		c.Undecided("C13.1", "subjects", "no call from engine/cmd into a page-touching storage entry point was found")
	}

	// ---- C13.2 ------------------------------------------------------------------
	for _, n := range w.SortedFuncNames() {
		caller := w.Funcs[n]
		if caller.Pkg == storage {
			continue
		}
		var appends, touches []*CallSite
		for _, cs := range cg.Sites[caller] {
			for _, t := range cs.Targets {
				if t.Pkg != storage {
					continue
				}
				if _, ex := c13Excluded[t.Name]; ex {
					continue
				}
				if isLogAppend(t) {
					appends = append(appends, cs)
				} else if m.touching[t] {
					touches = append(touches, cs)
				}
			}
		}
		if len(appends) == 0 {
			continue
		}
		g := caller.Graph()
		for _, a := range appends {
			aloc, ok := g.Locate(a.Call)
			if !ok {
				continue
			}
			key := caller.Name + "|log-append|" + calleeKey(a.Callee)
			bad := ""
			examined := 0
			for _, t := range touches {
				tloc, ok := g.Locate(t.Call)
				if !ok {
					continue
				}
				examined++
				// search: from t, a release, then the append
				start := tloc
				g.Forward(&start, nil, func(nn ast.Node, at Loc) Verdict {
					if at == aloc {
						return Cut
					}
					if es, ok := nn.(*ast.ExprStmt); ok {
						if call, ok := es.X.(*ast.CallExpr); ok {
							if _, rel, ok := m.lockCall(caller, call); ok && rel {
								from := at
								if hit, _ := g.Forward(&from, nil, func(_ ast.Node, at2 Loc) Verdict {
									if at2 == aloc {
										return Hit
									}
									return Go
								}, nil); hit {
									bad = "the store lock is released at " + w.Pos(call.Pos()) + " between " + caller.Src(t.Call.Fun) + " and the log append"
									return Hit
								}
							}
						}
					}
					return Go
				}, nil)
				if bad != "" {
					break
				}
			}
			if bad != "" {
				c.Fail("C13.2", key, a.Call.Pos(), "%s", bad)
			} else {
				c.OK("C13.2", key, a.Call.Pos(), examined, "no lock release between any of the %d page-touching calls and the log append", examined)
			}
		}
	}

	// ---- C13.3 ------------------------------------------------------------------
	nGo := 0
	for _, n := range w.SortedFuncNames() {
		f := w.Funcs[n]
		if f.Pkg != storage {
			continue
		}
		ast.Inspect(f.Decl.Body, func(x ast.Node) bool {
			gs, ok := x.(*ast.GoStmt)
			if !ok {
				return true
			}
			nGo++
			key := f.Name + "|go"
			bad := ""
			examined := 0
			ast.Inspect(gs.Call, func(y ast.Node) bool {
				switch z := y.(type) {
				case *ast.SelectorExpr:
					if v := fieldVar(f, z); v != nil {
						if name, sh := m.sharedFld[v]; sh {
							bad = "goroutine accesses shared field " + name + " directly at " + w.Pos(z.Pos())
						}
					}
				case *ast.CallExpr:
					callee := f.Callee(z)
					for _, t := range w.resolve(callee) {
						if !m.touching[t] {
							continue
						}
						examined++
						if !exclusiveSelfLocked(m, t) {
							bad = "goroutine calls " + t.Name + " which does not hold the exclusive lock around all its accesses (" + w.Pos(z.Pos()) + ")"
						}
					}
				}
				return true
			})
			if bad != "" {
				c.Fail("C13.3", key, gs.Pos(), "%s", bad)
			} else {
				c.OK("C13.3", key, gs.Pos(), examined, "every shared-state access of the goroutine goes through an exclusively locked function (%d calls examined)", examined)
			}
			return true
		})
	}
	if nGo == 0 {
		c.Note("C13.3: package storage starts no goroutine: there is no background flusher to synchronise with")
	}

	// ---- C13.4 ------------------------------------------------------------------------
	checkDataFileWrites(c, "C13.4")
	// a second flushing service on the same file writes its (stale) header between the statements of the
	// first: the USE typestate (one live service per database, the previous one closed) is part of C13
	c17Use(c, "C13.5")
	c17Existence(c, "C13.6")
	ruleLogWritesReachFile(c, "C13.7")
}

func isLogAppend(f *Func) bool {
	// a function whose cone writes the log: reaches (*wal).flush
	for t := range f.w.CG().Reach(f) {
		if t.Name == "storage.(*wal).flush" {
			return true
		}
	}
	return false
}

// outermostLit returns the outermost function literal of f containing n, or nil.
func outermostLit(f *Func, n ast.Node) *ast.FuncLit {
	var out *ast.FuncLit
	ast.Inspect(f.Decl.Body, func(x ast.Node) bool {
		if out != nil {
			return false
		}
		if l, ok := x.(*ast.FuncLit); ok && l.Pos() <= n.Pos() && n.End() <= l.End() && ast.Node(l) != n {
			out = l
			return false
		}
		return true
	})
	return out
}

// exclusiveSelfLocked: every touch in t (direct or through calls) is inside an exclusive bracket of t.
func exclusiveSelfLocked(m *LockModel, t *Func) bool {
	g := t.Graph()
	br := m.BracketsOf(g)
	for _, n := range m.direct[t] {
		node := n
		if l := outermostLit(t, n); l != nil {
			node = l
		}
		loc, ok := g.Locate(node)
		if !ok {
			return false
		}
		if in, _ := br.Inside(loc, lockExclK); !in {
			return false
		}
	}
	for _, cs := range m.w.CG().Sites[t] {
		touch := false
		for _, tt := range cs.Targets {
			if m.touching[tt] {
				touch = true
			}
		}
		if !touch {
			continue
		}
		node := ast.Node(cs.Call)
		if l := outermostLit(t, cs.Call); l != nil {
			node = l
		}
		loc, ok := g.Locate(node)
		if !ok {
			return false
		}
		if in, _ := br.Inside(loc, lockExclK); !in {
			return false
		}
	}
	return true
}

// checkDataFileWrites: WriteAt sites and who can reach them (shared by C04.1 and C13.4).
func checkDataFileWrites(c *Ctx, rule string) {
	c.Robust(rule)
	w := c.W
	m := w.Locks()
	cg := w.CG()
	n := 0
	for _, name := range w.SortedFuncNames() {
		f := w.Funcs[name]
		for _, call := range f.Calls(f.Decl.Body, true, "os.File.WriteAt") {
			n++
			key := f.Name + "|WriteAt"
			// f must be exclusive itself at that site, or all callers (transitively) are exclusive sections / excluded
			ok, detail, examined := writerProtected(m, cg, f, call, map[*Func]bool{})
			if ok {
				c.OK(rule, key, call.Pos(), examined, "%s", detail)
			} else {
				c.Fail(rule, key, call.Pos(), "data-file write outside the exclusive section: %s", detail)
			}
		}
	}
	if n == 0 {
		c.Undecided(rule, "subjects", "no (*os.File).WriteAt call found: the data-file writer is not where the rule expects it")
	}
}

func writerProtected(m *LockModel, cg *CG, f *Func, at ast.Node, seen map[*Func]bool) (bool, string, int) {
	g := f.Graph()
	node := at
	if l := outermostLit(f, at); l != nil {
		node = l
	}
	if loc, ok := g.Locate(node); ok {
		if in, _ := m.BracketsOf(g).Inside(loc, lockExclK); in {
			return true, "inside the exclusive bracket of " + f.Name, 1
		}
	}
	if seen[f] {
		return true, "", 0
	}
	seen[f] = true
	if reason, ex := c13Excluded[f.Name]; ex {
		return true, "reached from " + f.Name + " (" + reason + ")", 1
	}
	sites := cg.In[f]
	if len(sites) == 0 {
		return false, f.Name + " has no caller holding the exclusive lock", 0
	}
	examined := 0
	var chain []string
	for _, cs := range sites {
		ok, d, e := writerProtected(m, cg, cs.Caller, cs.Call, seen)
		examined += e
		if !ok {
			return false, f.Name + " <- " + d, examined
		}
		if d != "" {
			chain = append(chain, d)
		}
	}
	return true, f.Name + " only called from: " + strings.Join(dedupe(chain), "; "), examined
}

func dedupe(in []string) []string {
	seen := map[string]bool{}
	var out []string
	for _, s := range in {
		if !seen[s] {
			seen[s] = true
			out = append(out, s)
		}
	}
	return out
}

func init() {
	seed(Seed{Prop: "C13", Name: "insert-endtxn-before-log-append", File: "engine/insert.go",
		Old: "\tif err := rm.FlushWALBatch(batch); err != nil {", New: "\trm.EndTxn()\n\trm.StartTxn()\n\tif err := rm.FlushWALBatch(batch); err != nil {", Expect: "C13.2"})
	seed(Seed{Prop: "C13", Name: "delete-no-bracket", File: "engine/delete.go",
		Old: "\trm.StartTxn()\n\tdefer rm.EndTxn()\n", New: "", Expect: "C13.1"})
	seed(Seed{Prop: "C13", Name: "update-release-before-log-append", File: "engine/update.go",
		Old: "\trm.StartTxn()\n\tdefer rm.EndTxn()\n", New: "\trm.StartTxn()\n", Expect: "C13.1", Silent: true})
	seed(Seed{Prop: "C13", Name: "update-early-endtxn", File: "engine/update.go",
		Old: "\tif err := rm.FlushWALBatch(batch); err != nil {", New: "\trm.EndTxn()\n\tif err := rm.FlushWALBatch(batch); err != nil {", Expect: "C13.1"})
	seed(Seed{Prop: "C13", Name: "flush-without-exclusive-lock", File: "storage/page.go",
		Old: "\tf.lockExclusive()\n\tdefer f.unlockExclusive()\n", New: "", Expect: "C13.3"})
	seed(Seed{Prop: "C13", Name: "flush-shared-instead-of-exclusive", File: "storage/page.go",
		Old: "\tf.lockExclusive()\n\tdefer f.unlockExclusive()\n", New: "\tf.lockShared()\n\tdefer f.unlockShared()\n", Expect: "C13.3"})
	seed(Seed{Prop: "C13", Name: "timer-saves-header-directly", File: "storage/page.go",
		Old: "\t\t\t\t\tif err := fs.flushPages(); err != nil {", New: "\t\t\t\t\tfs.save()\n\t\t\t\t\tif err := fs.flushPages(); err != nil {", Expect: "C13.3"})
	seed(Seed{Prop: "C13", Name: "createtable-unlocked", File: "storage/relation.go",
		Old: "\trs.fs.lockShared()\n\tdefer rs.fs.unlockShared()\n", New: "", Expect: "C13.1"})
	seed(Seed{Prop: "C13", Name: "select-no-bracket", File: "engine/select.go",
		Old: "func EvaluateSelect(q sql.Select, rm RelationManager) ([]*storage.Row, []*storage.Field, error) {\n\trm.StartTxn()\n\tdefer rm.EndTxn()\n", New: "func EvaluateSelect(q sql.Select, rm RelationManager) ([]*storage.Row, []*storage.Field, error) {\n", Expect: "C13.1"})
	seed(Seed{Prop: "C13", Name: "rename-local-and-log (behaviour preserving)", File: "engine/delete.go",
		Old: "\ttable := q.TableName\n\trows, fields, err := rm.Fetch(table)", New: "\ttbl := q.TableName\n\t_ = tbl\n\trows, fields, err := rm.Fetch(q.TableName)", Silent: true})
}
