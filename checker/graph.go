package main

// Control-flow helpers on top of golang.org/x/tools/go/cfg: node location,
// dominators, and a forward path search with edge filtering. All ordering
// rules (templates T1, T8, T11, T12 of DESIGN.md) are phrased with these.

import (
	"go/ast"
	"go/token"
	"go/types"

	"golang.org/x/tools/go/cfg"
)

type Loc struct {
	B *cfg.Block
	I int // index into B.Nodes; len(B.Nodes) denotes the end of the block
}

type Graph struct {
	f    *Func
	body *ast.BlockStmt
	c    *cfg.CFG
	idom map[*cfg.Block]*cfg.Block
	rpo  []*cfg.Block
}

func newGraph(f *Func, body *ast.BlockStmt) *Graph {
	g := &Graph{f: f, body: body}
	g.c = cfg.New(body, f.mayReturn)
	g.computeDom()
	return g
}

func (g *Graph) Entry() *cfg.Block { return g.c.Blocks[0] }

func (g *Graph) computeDom() {
	// reverse post-order over live blocks
	seen := map[*cfg.Block]bool{}
	var post []*cfg.Block
	var dfs func(b *cfg.Block)
	dfs = func(b *cfg.Block) {
		seen[b] = true
		for _, s := range b.Succs {
			if !seen[s] {
				dfs(s)
			}
		}
		post = append(post, b)
	}
	dfs(g.Entry())
	for i := len(post) - 1; i >= 0; i-- {
		g.rpo = append(g.rpo, post[i])
	}
	idx := map[*cfg.Block]int{}
	for i, b := range g.rpo {
		idx[b] = i
	}
	preds := map[*cfg.Block][]*cfg.Block{}
	for _, b := range g.rpo {
		for _, s := range b.Succs {
			preds[s] = append(preds[s], b)
		}
	}
	idom := map[*cfg.Block]*cfg.Block{g.Entry(): g.Entry()}
	intersect := func(a, b *cfg.Block) *cfg.Block {
		for a != b {
			for idx[a] > idx[b] {
				a = idom[a]
			}
			for idx[b] > idx[a] {
				b = idom[b]
			}
		}
		return a
	}
	for changed := true; changed; {
		changed = false
		for _, b := range g.rpo[1:] {
			var nd *cfg.Block
			for _, p := range preds[b] {
				if idom[p] == nil {
					continue
				}
				if nd == nil {
					nd = p
				} else {
					nd = intersect(p, nd)
				}
			}
			if nd != nil && idom[b] != nd {
				idom[b] = nd
				changed = true
			}
		}
	}
	g.idom = idom
}

// Reachable reports whether the block is reachable from the entry.
func (g *Graph) Reachable(b *cfg.Block) bool { return g.idom[b] != nil }

// BlockDominates: every path from entry to b passes through a.
func (g *Graph) BlockDominates(a, b *cfg.Block) bool {
	if !g.Reachable(b) {
		return true
	}
	for {
		if a == b {
			return true
		}
		p := g.idom[b]
		if p == nil || p == b {
			return false
		}
		b = p
	}
}

func (g *Graph) Dominates(a, b Loc) bool {
	if a.B == b.B {
		return a.I < b.I
	}
	return g.BlockDominates(a.B, b.B)
}

// Locate finds the CFG node that contains n (the innermost block node whose
// source range covers n).
func (g *Graph) Locate(n ast.Node) (Loc, bool) {
	var best Loc
	var bestSize token.Pos = -1
	for _, b := range g.c.Blocks {
		for i, x := range b.Nodes {
			if x.Pos() <= n.Pos() && n.End() <= x.End() {
				size := x.End() - x.Pos()
				if bestSize < 0 || size < bestSize {
					best, bestSize = Loc{b, i}, size
				}
			}
		}
	}
	return best, bestSize >= 0
}

func (g *Graph) Node(l Loc) ast.Node {
	if l.I < len(l.B.Nodes) {
		return l.B.Nodes[l.I]
	}
	return nil
}

// EdgeInfo describes what is known on the edge from a two-way block to one of its successors.
type EdgeInfo struct {
	Cond ast.Expr // the condition (if/for/tagless switch) or the case expression (tagged switch)
	Val  bool     // truth value of Cond on this edge (for a tagged switch: tag == Cond)
	Case bool     // Cond is a case expression of a tagged switch
	// Synth: for a tagged switch the comparison this edge decides, `tag == case expression`
	Synth ast.Expr
}

// Test returns the expression whose truth value is Val on this edge, whatever the spelling (an if condition, or
// `tag == value` for the arm of a tagged switch).
func (e EdgeInfo) Test() (ast.Expr, bool) {
	if e.Case {
		return e.Synth, e.Synth != nil
	}
	return e.Cond, true
}

func (g *Graph) EdgeInfo(b *cfg.Block, succ int) (EdgeInfo, bool) {
	if len(b.Succs) != 2 || len(b.Nodes) == 0 {
		return EdgeInfo{}, false
	}
	e, ok := b.Nodes[len(b.Nodes)-1].(ast.Expr)
	if !ok {
		return EdgeInfo{}, false
	}
	info := EdgeInfo{Cond: e, Val: succ == 0}
	if b.Succs[0].Kind == cfg.KindSwitchCaseBody {
		if cc, ok := b.Succs[0].Stmt.(*ast.CaseClause); ok {
			// find the enclosing switch to learn whether it has a tag
			if sw := g.switchOf(cc); sw != nil && sw.Tag != nil {
				info.Case = true
				info.Synth = &ast.BinaryExpr{X: sw.Tag, Op: token.EQL, Y: e}
			}
		}
	}
	return info, true
}

func (g *Graph) switchOf(cc *ast.CaseClause) *ast.SwitchStmt {
	var found *ast.SwitchStmt
	ast.Inspect(g.body, func(n ast.Node) bool {
		if found != nil {
			return false
		}
		if sw, ok := n.(*ast.SwitchStmt); ok {
			for _, c := range sw.Body.List {
				if c == cc {
					found = sw
					return false
				}
			}
		}
		return true
	})
	return found
}

type Verdict int

const (
	Go  Verdict = iota // keep exploring past this node
	Cut                // do not explore beyond this node on this path
	Hit                // target found: record and stop
)

type EdgeFilter func(b *cfg.Block, succ int) bool

// Forward explores every path that starts right after start (or at the
// function entry when start is nil). visit is called once per reachable node
// occurrence; onExit (may be nil) is called for every block without successors
// whose nodes were all passed (the function returns or falls off its end
// there; blocks ending in a no-return call included: test the last node).
// It returns the first Hit with a witness path (block-entry granularity).
func (g *Graph) Forward(start *Loc, edge EdgeFilter, visit func(n ast.Node, l Loc) Verdict, onExit func(b *cfg.Block) Verdict) (hit bool, witness []ast.Node) {
	type item struct {
		b    *cfg.Block
		from int
		path []ast.Node
	}
	seen := map[*cfg.Block]bool{}
	var work []item
	if start == nil {
		work = append(work, item{g.Entry(), 0, nil})
		seen[g.Entry()] = true
	} else {
		work = append(work, item{start.B, start.I + 1, nil})
	}
	for len(work) > 0 {
		it := work[len(work)-1]
		work = work[:len(work)-1]
		cut := false
		path := it.path
		for i := it.from; i < len(it.b.Nodes); i++ {
			n := it.b.Nodes[i]
			switch visit(n, Loc{it.b, i}) {
			case Hit:
				return true, append(path, n)
			case Cut:
				cut = true
			}
			if cut {
				break
			}
		}
		if cut {
			continue
		}
		if len(it.b.Succs) == 0 {
			if onExit != nil && !g.IsNoReturnExit(it.b) { // a crash is not a way of returning
				if onExit(it.b) == Hit {
					var last ast.Node
					if len(it.b.Nodes) > 0 {
						last = it.b.Nodes[len(it.b.Nodes)-1]
					}
					return true, append(path, last)
				}
			}
			continue
		}
		for si, s := range it.b.Succs {
			if edge != nil && !edge(it.b, si) {
				continue
			}
			if seen[s] {
				continue
			}
			seen[s] = true
			np := path
			if len(it.b.Nodes) > 0 {
				np = append(append([]ast.Node{}, path...), it.b.Nodes[len(it.b.Nodes)-1])
			}
			work = append(work, item{s, 0, np})
		}
	}
	return false, nil
}

// IsNoReturnExit reports whether the exit block ends in a call that never returns (panic, os.Exit).
func (g *Graph) IsNoReturnExit(b *cfg.Block) bool {
	if len(b.Nodes) == 0 {
		return false
	}
	es, ok := b.Nodes[len(b.Nodes)-1].(*ast.ExprStmt)
	if !ok {
		return false
	}
	call, ok := es.X.(*ast.CallExpr)
	return ok && !g.f.mayReturn(call)
}

// ---- error-path sensitivity ---------------------------------------------------

// errTest recognises "x != nil" / "x == nil" where x has type error and returns
// the tested object and whether the comparison is "!=".
func (f *Func) errTest(e ast.Expr) (obj types.Object, neq bool, ok bool) {
	e = ast.Unparen(e)
	be, isBin := e.(*ast.BinaryExpr)
	if !isBin || (be.Op != token.NEQ && be.Op != token.EQL) {
		return nil, false, false
	}
	x, y := ast.Unparen(be.X), ast.Unparen(be.Y)
	if isNilIdent(f, y) {
	} else if isNilIdent(f, x) {
		x = y
	} else {
		return nil, false, false
	}
	id, isId := x.(*ast.Ident)
	if !isId {
		return nil, false, false
	}
	o := f.ObjOf(id)
	if o == nil || !isErrorType(o.Type()) {
		return nil, false, false
	}
	return o, be.Op == token.NEQ, true
}

func isNilIdent(f *Func, e ast.Expr) bool {
	id, ok := e.(*ast.Ident)
	if !ok {
		return false
	}
	_, isNil := f.Pkg.TypesInfo.Uses[id].(*types.Nil)
	return isNil
}

func isErrorType(t types.Type) bool {
	return t != nil && types.Identical(t, types.Universe.Lookup("error").Type())
}

// nonNilOn lists the error objects known to be non-nil when cond evaluates to val
// (go/cfg does not decompose && and ||, so the condition is analysed here).
func (f *Func) nonNilOn(cond ast.Expr, val bool) []types.Object {
	e := ast.Unparen(cond)
	switch x := e.(type) {
	case *ast.BinaryExpr:
		if x.Op == token.LAND && val {
			return append(f.nonNilOn(x.X, true), f.nonNilOn(x.Y, true)...)
		}
		if x.Op == token.LOR && !val {
			return append(f.nonNilOn(x.X, false), f.nonNilOn(x.Y, false)...)
		}
	case *ast.UnaryExpr:
		if x.Op == token.NOT {
			return f.nonNilOn(x.X, !val)
		}
	}
	if o, neq, ok := f.errTest(e); ok && neq == val {
		return []types.Object{o}
	}
	return nil
}

// SuccessEdges is an EdgeFilter that drops the edges on which an error variable
// is known to be non-nil ("if err != nil" true edge, "if err == nil" false edge,
// also inside && / ||).
func (g *Graph) SuccessEdges(b *cfg.Block, succ int) bool {
	info, ok := g.EdgeInfo(b, succ)
	if !ok || info.Case {
		return true
	}
	return len(g.f.nonNilOn(info.Cond, info.Val)) == 0
}

// ReturnMayBeNil classifies a return statement of a function whose last result
// is an error: can the returned error be nil? (DESIGN.md T1.) ret must be
// located in g.
func (g *Graph) ReturnMayBeNil(ret *ast.ReturnStmt) bool {
	if len(ret.Results) == 0 {
		return true // named results / no error result: be conservative
	}
	e := ast.Unparen(ret.Results[len(ret.Results)-1])
	if isNilIdent(g.f, e) {
		return true
	}
	switch x := e.(type) {
	case *ast.CallExpr:
		if g.f.CallIs(x, "fmt.Errorf", "errors.New") {
			return false
		}
		if fn := g.f.Callee(x); fn != nil {
			// helper constructors of errors: functions in mkdb whose every return is non-nil
			if tf := g.f.w.FuncOf(fn); tf != nil && tf.alwaysNonNilError() {
				return false
			}
		}
		return true
	case *ast.Ident:
		o := g.f.ObjOf(x)
		if v, ok := o.(*types.Var); ok && v.Parent() == v.Pkg().Scope() {
			return false // package-level sentinel Err...
		}
		// the variable tested != nil by a dominating true edge?
		if loc, ok := g.Locate(ret); ok && g.onNonNilEdge(loc, o) {
			return false
		}
		return true
	case *ast.SelectorExpr:
		if o := g.f.ObjOf(x.Sel); o != nil {
			if v, ok := o.(*types.Var); ok && v.Pkg() != nil && v.Parent() == v.Pkg().Scope() {
				return false // storage.ErrFoo
			}
		}
	}
	return true
}

// onNonNilEdge: is loc dominated by the edge on which obj != nil, with no
// assignment to obj between the test and loc? Approximated structurally: walk
// up the dominator chain; for each dominating block pair (p -> child on the
// chain) ending in a test of obj, check the edge polarity.
func (g *Graph) onNonNilEdge(loc Loc, obj types.Object) bool {
	b := loc.B
	for {
		p := g.idom[b]
		if p == nil || p == b {
			return false
		}
		if len(p.Succs) == 2 {
			for si, s := range p.Succs {
				if s != b && !g.BlockDominates(s, b) {
					continue
				}
				info, ok := g.EdgeInfo(p, si)
				if !ok || info.Case {
					continue
				}
				for _, o := range g.f.nonNilOn(info.Cond, info.Val) {
					if o == obj && g.BlockDominates(s, loc.B) && onlyPred(g, s, p) {
						return true
					}
				}
			}
		}
		b = p
	}
}

func onlyPred(g *Graph, s, p *cfg.Block) bool {
	n := 0
	for _, b := range g.c.Blocks {
		if !g.Reachable(b) {
			continue
		}
		for _, x := range b.Succs {
			if x == s {
				n++
				if b != p {
					return false
				}
			}
		}
	}
	return n >= 1
}

// alwaysNonNilError: every return of the function returns a freshly made error.
func (f *Func) alwaysNonNilError() bool {
	sig := f.Obj.Type().(*types.Signature)
	if sig.Results().Len() != 1 || !isErrorType(sig.Results().At(0).Type()) {
		return false
	}
	ok := true
	n := 0
	ast.Inspect(f.Decl.Body, func(x ast.Node) bool {
		if _, isLit := x.(*ast.FuncLit); isLit {
			return false
		}
		if r, isRet := x.(*ast.ReturnStmt); isRet {
			n++
			if len(r.Results) != 1 {
				ok = false
				return true
			}
			c, isCall := ast.Unparen(r.Results[0]).(*ast.CallExpr)
			if !isCall || !f.CallIs(c, "fmt.Errorf", "errors.New") {
				ok = false
			}
		}
		return true
	})
	return ok && n > 0
}

// Returns lists the return statements of the graph's body (not of nested literals).
func (g *Graph) Returns() []*ast.ReturnStmt {
	var out []*ast.ReturnStmt
	ast.Inspect(g.body, func(x ast.Node) bool {
		if _, isLit := x.(*ast.FuncLit); isLit {
			return false
		}
		if r, ok := x.(*ast.ReturnStmt); ok {
			out = append(out, r)
		}
		return true
	})
	return out
}

// containsCall: does node n (excluding nested function literals) contain a call to one of keys?
func (g *Graph) containsCall(n ast.Node, keys ...string) *ast.CallExpr {
	if cs := g.f.Calls(n, false, keys...); len(cs) > 0 {
		return cs[0]
	}
	return nil
}

// ---- relational guards, independent of how the test is written --------------------------------

// Rel is "X Op Y" over expression keys (exprKey).
type Rel struct {
	X  string
	Op token.Token
	Y  string
}

func negOp(op token.Token) token.Token {
	switch op {
	case token.EQL:
		return token.NEQ
	case token.NEQ:
		return token.EQL
	case token.LSS:
		return token.GEQ
	case token.GEQ:
		return token.LSS
	case token.GTR:
		return token.LEQ
	case token.LEQ:
		return token.GTR
	}
	return token.ILLEGAL
}

func mirrorOp(op token.Token) token.Token {
	switch op {
	case token.LSS:
		return token.GTR
	case token.GTR:
		return token.LSS
	case token.LEQ:
		return token.GEQ
	case token.GEQ:
		return token.LEQ
	}
	return op
}

func opImplies(have, want token.Token) bool {
	if have == want {
		return true
	}
	switch want {
	case token.NEQ:
		return have == token.LSS || have == token.GTR
	case token.LEQ:
		return have == token.LSS || have == token.EQL
	case token.GEQ:
		return have == token.GTR || have == token.EQL
	}
	return false
}

// condImplies: does cond, taken with the given truth value, imply rel? Conjunctions (true side) and
// disjunctions (false side) are searched for a conjunct that does.
func condImplies(cond ast.Expr, truth bool, rel Rel) bool {
	cond = ast.Unparen(cond)
	if u, ok := cond.(*ast.UnaryExpr); ok && u.Op == token.NOT {
		return condImplies(u.X, !truth, rel)
	}
	// errors.Is(e, S) is read as e == S (for the sentinels of this repository, which are compared by identity
	// wherever they are not wrapped)
	if x, y, ok := errorsIsOperands(cond); ok {
		cond = &ast.BinaryExpr{X: x, Op: token.EQL, Y: y}
	}
	be, ok := cond.(*ast.BinaryExpr)
	if !ok {
		return false
	}
	switch be.Op {
	case token.LAND:
		if truth {
			return condImplies(be.X, true, rel) || condImplies(be.Y, true, rel)
		}
		return false
	case token.LOR:
		if !truth {
			return condImplies(be.X, false, rel) || condImplies(be.Y, false, rel)
		}
		return false
	}
	op := be.Op
	if negOp(op) == token.ILLEGAL {
		return false
	}
	if !truth {
		op = negOp(op)
	}
	x, y := exprKey(be.X), exprKey(be.Y)
	if x == rel.X && y == rel.Y {
		return opImplies(op, rel.Op)
	}
	if x == rel.Y && y == rel.X {
		return opImplies(mirrorOp(op), rel.Op)
	}
	return false
}

// HoldsAt: every path to loc passes an edge on which rel is implied by the branch condition, and that
// edge's target dominates loc (the relation's operands are assumed unchanged in between: callers use it
// for cursor/length style guards inside small functions).
func (g *Graph) HoldsAt(loc Loc, rel Rel) bool {
	for _, b := range g.c.Blocks {
		if !g.Reachable(b) || len(b.Succs) != 2 {
			continue
		}
		for si := 0; si < 2; si++ {
			info, ok := g.EdgeInfo(b, si)
			if !ok {
				continue
			}
			if info.Case {
				// tagged switch: this edge means tag == case (true side) or tag != case (false side)
				cc, _ := b.Succs[0].Stmt.(*ast.CaseClause)
				sw := g.switchOf(cc)
				if sw == nil || sw.Tag == nil {
					continue
				}
				op := token.EQL
				if !info.Val {
					op = token.NEQ
				}
				t, cse := exprKey(sw.Tag), exprKey(info.Cond)
				if !((t == rel.X && cse == rel.Y) || (t == rel.Y && cse == rel.X)) || !opImplies(op, rel.Op) {
					continue
				}
			} else if !condImplies(g.expandPredicateCall(g.expandBoolLocal(info.Cond)), info.Val, rel) {
				continue
			}
			s := b.Succs[si]
			if g.BlockDominates(s, loc.B) && onlyPred(g, s, b) {
				return true
			}
			// the other branch leaves the function: everything after the test is on this edge
			if g.BlockDominates(b, loc.B) && !reachesBlockG(g, b.Succs[1-si], loc.B) {
				return true
			}
		}
	}
	return false
}

func reachesBlockG(g *Graph, from, to *cfg.Block) bool {
	seen := map[*cfg.Block]bool{}
	var dfs func(b *cfg.Block) bool
	dfs = func(b *cfg.Block) bool {
		if b == to {
			return true
		}
		if seen[b] {
			return false
		}
		seen[b] = true
		for _, s := range b.Succs {
			if dfs(s) {
				return true
			}
		}
		return false
	}
	return dfs(from)
}

// errorsIsOperands: cond is errors.Is(e, S).
func errorsIsOperands(cond ast.Expr) (ast.Expr, ast.Expr, bool) {
	call, ok := ast.Unparen(cond).(*ast.CallExpr)
	if !ok || len(call.Args) != 2 {
		return nil, nil, false
	}
	sel, ok := ast.Unparen(call.Fun).(*ast.SelectorExpr)
	if !ok || sel.Sel.Name != "Is" {
		return nil, nil, false
	}
	if id, ok := ast.Unparen(sel.X).(*ast.Ident); !ok || id.Name != "errors" {
		return nil, nil, false
	}
	return call.Args[0], call.Args[1], true
}

// expandBoolLocal: `isNull := v == nil; if isNull {…}` tests v == nil. A condition that is (the negation of) a boolean
// local with a single definition is replaced by that definition.
func (g *Graph) expandBoolLocal(cond ast.Expr) ast.Expr {
	c := ast.Unparen(cond)
	if u, ok := c.(*ast.UnaryExpr); ok && u.Op == token.NOT {
		inner := g.expandBoolLocal(u.X)
		if inner != u.X {
			return &ast.UnaryExpr{Op: token.NOT, X: &ast.ParenExpr{X: inner}}
		}
		return cond
	}
	id, ok := c.(*ast.Ident)
	if !ok || g.f == nil {
		return cond
	}
	obj := g.f.ObjOf(id)
	if v, ok := obj.(*types.Var); !ok || v.IsField() {
		return cond
	}
	if rhs, _, ok := g.f.definedBy(g.body, obj); ok {
		if _, isCmp := ast.Unparen(rhs).(*ast.BinaryExpr); isCmp {
			return rhs
		}
	}
	return cond
}
