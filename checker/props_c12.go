package main

import (
	"go/ast"
	"go/constant"
	"go/token"
	"go/types"
)

func init() {
	register(&Property{
		ID:    "C12",
		Run:   runC12,
		Floor: 10,
		Assumptions: []string{
			"encoding/binary writes fixed-width values in the stated byte order; bytes.Buffer is a FIFO",
			"occupancy (C11.2) and value size (C08.3) bounds hold, so the page-size panic in the encoders is unreachable",
		},
		NotDecided: "semantic equality of decoded slices beyond field-by-field grammar agreement (implied by it under the co-assignment invariant valueSize == len(valueBytes), which C08.3 checks).",
	})
}

func storageConst(w *World, name string) (int64, bool) {
	cst, ok := w.Pkgs["storage"].Types.Scope().Lookup(name).(*types.Const)
	if !ok {
		return 0, false
	}
	v, exact := constant.Int64Val(constant.ToInt(cst.Val()))
	return v, exact
}

// fixedBytes sums the scalar widths of the items (not loops); hasVar reports variable-size items.
func fixedBytes(items []Item) (n int, loops []Item) {
	for _, it := range items {
		switch it.Kind {
		case itScalar:
			n += it.Width
		case itLoop:
			loops = append(loops, it)
		}
	}
	return
}

func runC12(c *Ctx) {
	defer c08SizeGuard(c, "C12.15")
	w := c.W
	defer func() {
		ruleDecoderBounds(c, "C12.4")
		ruleFreeAreaBound(c, "C12.13")
		ruleWholePageWrite(c, "C12.14")
		c04FlushOrder(c, "C12.5")
		ruleFlushLoopComplete(c, "C12.7")
		ruleSizeWithBytes(c, "C12.9")
		c08SizeGuardOpt(c, "C12.10", false)
		ruleDecodeSlotAgreement(c, "C12.11")
		ruleDecoderAcceptsMaxCell(c, "C12.12")
		ruleRawReadOnBuffer(c, "C12.8", "storage.(*btreeNode).decodeLeaf", "storage.(*btreeNode).decodeInternal")
		sub := NewCtx("C12", c.W)
		runC15(sub)
		c.Rule("C12.6", sub.Rules["C15.1"])
		for _, o := range sub.Obs {
			if o.Rule == "C15.1" {
				o.Rule = "C12.6"
				c.Obs = append(c.Obs, o)
			}
		}
	}()
	c.Rule("C12.1", "encodeLeaf/decodeLeaf and encodeInternal/decodeInternal have equal wire grammars, item by item: same widths, same struct field on both sides, same nesting, including the spliced cell area and the free-space pad")
	c.Rule("C12.2", "arithmetic over the EXTRACTED grammar and the declared constants: header bytes equal the declared header sizes; bytes per cell equal offsetElemSize + the declared cell size (with maxValueSize as the value bound); header + maxCells*cell <= pageSize; the counts and free size fit their wire widths; isFull compares the occupancy against exactly these capacity constants")
	c.Rule("C12.3", "fetch dispatches on the first byte of the page with exactly the kind constants the two encoders write first and the two decoders demand, and sets isLeaf accordingly")

	lw, lr := checkCodecPair(c, "C12.1", "storage.(*btreeNode).encodeLeaf", "storage.(*btreeNode).decodeLeaf")
	iw, ir := checkCodecPair(c, "C12.1", "storage.(*btreeNode).encodeInternal", "storage.(*btreeNode).decodeInternal")
	_, _ = lr, ir

	pageSize, ok1 := storageConst(w, "pageSize")
	offElem, ok2 := storageConst(w, "offsetElemSize")
	maxVal, ok3 := storageConst(w, "maxValueSize")
	if !ok1 || !ok2 || !ok3 {
		c.Undecided("C12.2", "anchor|constants", "pageSize/offsetElemSize/maxValueSize not found")
		return
	}
	type kind struct {
		name, hdrConst, cellConst, maxConst string
		items                               []Item
		valueBound                          int64
	}
	for _, k := range []kind{
		{"leaf", "leafNodeHeaderSize", "leafNodeCellSize", "maxLeafNodeCells", lw, maxVal},
		{"internal", "internalNodeHeaderSize", "nodeCellSize", "maxInternalNodeCells", iw, 0},
	} {
		if len(k.items) == 0 {
			continue
		}
		encName := "storage.(*btreeNode).encodeLeaf"
		if k.name == "internal" {
			encName = "storage.(*btreeNode).encodeInternal"
		}
		if ef := w.F(encName); ef != nil && w.opaque(ef) != "" {
			c.Undecided("C12.2", k.name+"|layout", "not decided, because %s %s: the page layout is not fully visible to the grammar extraction", encName, w.opaque(ef))
			continue
		}
		hdr, loops := fixedBytes(k.items)
		declHdr, okH := storageConst(w, k.hdrConst)
		declCell, okC := storageConst(w, k.cellConst)
		maxCells, okM := storageConst(w, k.maxConst)
		if !okH || !okC || !okM {
			c.Undecided("C12.2", "anchor|"+k.name+"-constants", "%s/%s/%s not found", k.hdrConst, k.cellConst, k.maxConst)
			continue
		}
		if len(loops) != 2 {
			c.Undecided("C12.2", k.name+"|layout", "expected an offset-array loop and a cell loop in the %s page grammar, found %d loops", k.name, len(loops))
			continue
		}
		c.Check(int64(hdr) == declHdr, "C12.2", k.name+"|header-size", k.items[0].Pos,
			"fixed header is "+itoa(hdr)+" bytes = "+k.hdrConst,
			"the encoder writes "+itoa(hdr)+" fixed header bytes but "+k.hdrConst+" = "+itoa(int(declHdr))+": capacity is computed from a wrong header size")
		offW, _ := fixedBytes(loops[0].Body)
		c.Check(int64(offW) == offElem, "C12.2", k.name+"|offset-width", loops[0].Pos,
			"offset array element is "+itoa(offW)+" bytes = offsetElemSize",
			"offset array element is "+itoa(offW)+" bytes but offsetElemSize = "+itoa(int(offElem)))
		cellFixed, _ := fixedBytes(loops[1].Body)
		hasBytes := false
		for _, it := range loops[1].Body {
			if it.Kind == itBytes {
				hasBytes = true
			}
		}
		cellMax := int64(cellFixed)
		if hasBytes {
			cellMax += k.valueBound
		}
		c.Check(cellMax == declCell, "C12.2", k.name+"|cell-size", loops[1].Pos,
			"largest cell is "+itoa(int(cellMax))+" bytes = "+k.cellConst,
			"the encoder writes up to "+itoa(int(cellMax))+" bytes per cell but "+k.cellConst+" = "+itoa(int(declCell)))
		total := declHdr + maxCells*(offElem+cellMax)
		used := int64(hdr) + maxCells*(int64(offW)+cellMax)
		if used > total {
			total = used
		}
		c.Check(total <= pageSize && maxCells > 0, "C12.2", k.name+"|fits-page", k.items[0].Pos,
			"header + "+itoa(int(maxCells))+" cells = "+itoa(int(total))+" <= pageSize "+itoa(int(pageSize)),
			"a "+k.name+" node with "+k.maxConst+" = "+itoa(int(maxCells))+" cells needs "+itoa(int(total))+" bytes > pageSize "+itoa(int(pageSize))+": the free-size computation wraps and the encoder panics inside the flush")
		// one more cell must not fit either way is not required; but capacity must be reachable by isFull
		c.Check(maxCells <= 65535 && pageSize <= 65535, "C12.2", k.name+"|fits-uint16", k.items[0].Pos, "cell count and free size fit uint16", "cell index or free size exceeds uint16")
	}
	// isFull uses the capacity constants with >=
	if f := c.NeedFunc("C12.2", "storage.(*btreeNode).isFull"); f != nil {
		seen := map[string]bool{}
		inspectBody(f.Decl.Body, func(n ast.Node) bool {
			be, ok := n.(*ast.BinaryExpr)
			if !ok {
				return true
			}
			var csts []*types.Const
			if cst := f.namedConst(be.Y); cst != nil {
				csts = append(csts, cst)
			} else if id, ok := ast.Unparen(be.Y).(*ast.Ident); ok {
				// a local that holds one of the capacity constants, chosen by the node kind
				if v, ok := f.ObjOf(id).(*types.Var); ok && !v.IsField() && v.Parent() != v.Pkg().Scope() {
					all := true
					for _, as := range f.assignsTo(f.Decl.Body, v) {
						for i, l := range as.Lhs {
							if lid, ok := ast.Unparen(l).(*ast.Ident); ok && f.ObjOf(lid) == types.Object(v) && i < len(as.Rhs) && len(as.Lhs) == len(as.Rhs) {
								if k := f.namedConst(as.Rhs[i]); k != nil {
									csts = append(csts, k)
								} else {
									all = false
								}
							}
						}
					}
					if !all {
						csts = nil
					}
				}
			}
			if len(csts) == 0 {
				return true
			}
			lenOffsets := false
			if call, ok := ast.Unparen(be.X).(*ast.CallExpr); ok {
				if id, ok := call.Fun.(*ast.Ident); ok && id.Name == "len" && len(call.Args) == 1 {
					if sel, ok := ast.Unparen(call.Args[0]).(*ast.SelectorExpr); ok {
						if v := fieldVar(f, sel); v != nil && v.Name() == "offsets" {
							lenOffsets = true
						}
					}
				}
			}
			if !lenOffsets {
				return true
			}
			for _, cst := range csts {
				key := f.Name + "|capacity|" + cst.Name()
				if seen[cst.Name()] {
					continue
				}
				seen[cst.Name()] = true
				if be.Op == token.GEQ || be.Op == token.EQL {
					c.OK("C12.2", key, be.Pos(), 1, "node is full when len(offsets) %s %s", be.Op, cst.Name())
				} else {
					c.Fail("C12.2", key, be.Pos(), "isFull uses len(offsets) %s %s: a node can grow beyond the capacity the page layout was computed for", be.Op, cst.Name())
				}
			}
			return true
		})
		for _, want := range []string{"maxLeafNodeCells", "maxInternalNodeCells"} {
			if !seen[want] {
				c.Fail("C12.2", f.Name+"|capacity|"+want, f.Decl.Pos(), "isFull does not compare the occupancy with %s", want)
			}
		}
		// leaf branch must use the leaf constant
		inspectBody(f.Decl.Body, func(n ast.Node) bool {
			ifs, ok := n.(*ast.IfStmt)
			if !ok {
				return true
			}
			if sel, ok := ast.Unparen(ifs.Cond).(*ast.SelectorExpr); ok {
				if v := fieldVar(f, sel); v != nil && v.Name() == "isLeaf" {
					usesLeaf := false
					ast.Inspect(ifs.Body, func(m ast.Node) bool {
						if id, ok := m.(*ast.Ident); ok && id.Name == "maxLeafNodeCells" {
							usesLeaf = true
						}
						return true
					})
					c.Check(usesLeaf, "C12.2", f.Name+"|leaf-branch", ifs.Pos(), "the isLeaf branch tests the leaf capacity", "the isLeaf branch of isFull does not use maxLeafNodeCells")
				}
			}
			return true
		})
	}

	// ---- C12.3 -----------------------------------------------------------------
	if f := c.NeedFunc("C12.3", "storage.(*fileStore).fetch"); f != nil {
		// the kind byte is byte 0 of the page buffer, possibly bound to a local first
		kinds := map[string]bool{}
		ast.Inspect(f.Decl.Body, func(n ast.Node) bool {
			if ix, ok := n.(*ast.IndexExpr); ok {
				if v := f.constOf(ix.Index); v != nil && v.String() == "0" {
					if sl, ok := f.TypeOf(ix.X).Underlying().(*types.Slice); ok {
						if b, ok := sl.Elem().Underlying().(*types.Basic); ok && b.Kind() == types.Uint8 {
							kinds[exprKey(ix)] = true
						}
					}
				}
			}
			return true
		})
		ast.Inspect(f.Decl.Body, func(n ast.Node) bool {
			if as, ok := n.(*ast.AssignStmt); ok && as.Tok == token.DEFINE && len(as.Lhs) == 1 && len(as.Rhs) == 1 && kinds[exprKey(as.Rhs[0])] {
				kinds[exprKey(as.Lhs[0])] = true
			}
			return true
		})
		g := f.Graph()
		holds := func(loc Loc, op token.Token, kind string) bool {
			for k := range kinds {
				if g.HoldsAt(loc, Rel{k, op, kind}) {
					return true
				}
			}
			return false
		}
		nTrue := 0
		idx := map[string]int{}
		// isLeaf computed from the kind byte in one expression: `isLeaf = kind == LeafNode` (also as a literal's field)
		fromKind := func(e ast.Expr) bool {
			be, ok := ast.Unparen(e).(*ast.BinaryExpr)
			if !ok || be.Op != token.EQL {
				return false
			}
			x, y := exprKey(be.X), exprKey(be.Y)
			return (kinds[x] && y == "LeafNode") || (kinds[y] && x == "LeafNode")
		}
		inspectBody(f.Decl.Body, func(n ast.Node) bool {
			var val ast.Expr
			switch y := n.(type) {
			case *ast.KeyValueExpr:
				if k, ok := y.Key.(*ast.Ident); ok && k.Name == "isLeaf" {
					val = y.Value
				}
			case *ast.AssignStmt:
				if len(y.Lhs) == 1 && len(y.Rhs) == 1 {
					if sel, ok := ast.Unparen(y.Lhs[0]).(*ast.SelectorExpr); ok {
						if v := fieldVar(f, sel); v != nil && v.Name() == "isLeaf" {
							val = y.Rhs[0]
						}
					}
				}
			}
			if val != nil && fromKind(val) {
				nTrue++
				c.OK("C12.3", f.Name+"|dispatch|LeafNode", val.Pos(), 1, "isLeaf is the value of `kind byte == LeafNode`")
				c.OK("C12.3", f.Name+"|dispatch|InternalNode", val.Pos(), 1, "isLeaf is the value of `kind byte == LeafNode`")
			}
			return true
		})
		inspectBody(f.Decl.Body, func(n ast.Node) bool {
			var as ast.Node
			var rhs ast.Expr
			switch y := n.(type) {
			case *ast.KeyValueExpr:
				// a node built with the flag already set: &btreeNode{isLeaf: true}
				if k, ok := y.Key.(*ast.Ident); ok && k.Name == "isLeaf" {
					as, rhs = y, y.Value
				}
			case *ast.AssignStmt:
				if len(y.Lhs) == 1 && len(y.Rhs) == 1 {
					if sel, ok := ast.Unparen(y.Lhs[0]).(*ast.SelectorExpr); ok {
						if v := fieldVar(f, sel); v != nil && v.Name() == "isLeaf" {
							as, rhs = y, y.Rhs[0]
						}
					}
				}
			}
			if as == nil || fromKind(rhs) {
				return true
			}
			// the flag travels through boolean locals (a helper's results): every constant stored into a local that
			// can flow into the flag is a store site of its own
			type site struct {
				val string
				n   ast.Node
			}
			var sites []site
			if cv := f.constOf(rhs); cv != nil {
				sites = append(sites, site{cv.String(), as})
			} else if id, ok := ast.Unparen(rhs).(*ast.Ident); ok {
				seen := map[types.Object]bool{}
				var follow func(o types.Object, depth int) bool
				follow = func(o types.Object, depth int) bool {
					if o == nil || seen[o] || depth > 4 {
						return false
					}
					seen[o] = true
					found := false
					for _, a := range f.assignsTo(f.Decl.Body, o) {
						if len(a.Lhs) != len(a.Rhs) {
							return false
						}
						for i, l := range a.Lhs {
							lid, ok := ast.Unparen(l).(*ast.Ident)
							if !ok || f.ObjOf(lid) != o {
								continue
							}
							if cv := f.constOf(a.Rhs[i]); cv != nil {
								sites = append(sites, site{cv.String(), a})
								found = true
							} else if rid, ok := ast.Unparen(a.Rhs[i]).(*ast.Ident); ok {
								if !follow(f.ObjOf(rid), depth+1) {
									return false
								}
								found = true
							} else {
								return false
							}
						}
					}
					return found
				}
				if !follow(f.ObjOf(id), 0) {
					sites = nil
				}
			}
			if len(sites) == 0 {
				c.Undecided("C12.3", f.Name+"|dispatch", "isLeaf is stored from a non-constant in fetch")
				return true
			}
			for _, st := range sites {
				cvs := st.val
				loc, located := g.Locate(st.n)
				if !located {
					c.Undecided("C12.3", f.Name+"|dispatch", "a store of the leaf flag could not be located in the flow graph")
					continue
				}
				as := st.n
				if cvs == "true" {
					nTrue++
					key := f.Name + "|dispatch|LeafNode"
					if idx[key]++; idx[key] > 1 {
						key += "#" + itoa(idx[key])
					}
					c.Check(holds(loc, token.EQL, "LeafNode"), "C12.3", key, as.Pos(), "isLeaf=true is stored only where the kind byte is LeafNode", "a page is decoded as a leaf on a path where its kind byte is not known to be LeafNode")
				} else {
					key := f.Name + "|dispatch|InternalNode"
					if idx[key]++; idx[key] > 1 {
						key += "#" + itoa(idx[key])
					}
					c.Check(holds(loc, token.EQL, "InternalNode") || holds(loc, token.NEQ, "LeafNode"), "C12.3", key, as.Pos(), "isLeaf=false is stored only where the kind byte is InternalNode", "a page is decoded as an internal node on a path where its kind byte may be LeafNode")
				}
			}
			return true
		})
		if len(kinds) == 0 {
			c.Undecided("C12.3", f.Name+"|dispatch", "fetch does not look at byte 0 of the page")
		} else if nTrue == 0 {
			c.Fail("C12.3", f.Name+"|dispatch|LeafNode", f.Decl.Pos(), "fetch never selects the leaf decoder: leaf pages are decoded as internal nodes")
		}
	}
	// first item of each encoder is the kind constant the decoder demands
	for _, p := range []struct{ enc, dec, kind string }{
		{"storage.(*btreeNode).encodeLeaf", "storage.(*btreeNode).decodeLeaf", "LeafNode"},
		{"storage.(*btreeNode).encodeInternal", "storage.(*btreeNode).decodeInternal", "InternalNode"},
	} {
		ef, df := w.F(p.enc), w.F(p.dec)
		if ef == nil || df == nil {
			continue
		}
		key := p.enc + "|kind-byte"
		wi, wprobs := Grammar(ef, true, nil)
		if len(wprobs) > 0 {
			c.Undecided("C12.3", key, "%v", wprobs)
			continue
		}
		okEnc := len(wi) > 0 && wi[0].Kind == itScalar && wi[0].Width == 1 && wi[0].Ref == p.kind
		okDec := false
		inspectBody(df.Decl.Body, func(n ast.Node) bool {
			if be, ok := n.(*ast.BinaryExpr); ok && be.Op == token.NEQ {
				if cst := df.namedConst(be.Y); cst != nil && cst.Name() == p.kind {
					okDec = true
				}
			}
			return true
		})
		c.Check(okEnc && okDec, "C12.3", key, ef.Decl.Pos(), "encoder writes "+p.kind+" first and the decoder demands it", "encoder/decoder of this page kind do not agree on the kind byte "+p.kind)
	}
	// encode/decode dispatch on isLeaf
	for _, d := range []struct{ fn, leaf, internal string }{
		{"storage.(*btreeNode).encode", "encodeLeaf", "encodeInternal"},
		{"storage.(*btreeNode).decode", "decodeLeaf", "decodeInternal"},
	} {
		f := w.F(d.fn)
		if f == nil {
			c.Undecided("C12.3", "anchor|"+d.fn, "not found")
			continue
		}
		okD := false
		inspectBody(f.Decl.Body, func(n ast.Node) bool {
			ifs, ok := n.(*ast.IfStmt)
			if !ok {
				return true
			}
			if sel, ok := ast.Unparen(ifs.Cond).(*ast.SelectorExpr); ok {
				if v := fieldVar(f, sel); v != nil && v.Name() == "isLeaf" {
					if len(f.Calls(ifs.Body, false, "storage.btreeNode."+d.leaf)) > 0 {
						okD = true
					}
				}
			}
			return true
		})
		tail := len(f.Calls(f.Decl.Body, false, "storage.btreeNode."+d.internal)) > 0
		c.Check(okD && tail, "C12.3", d.fn+"|isLeaf-dispatch", f.Decl.Pos(), "isLeaf selects "+d.leaf+", otherwise "+d.internal, d.fn+" does not dispatch isLeaf to "+d.leaf+" and the rest to "+d.internal)
	}
}

// ---- codecs shared with C02 / C03 / C08 ----------------------------------------------

func c02Codecs(c *Ctx, rule string) {
	c.Rule(rule, "log-record codec (WALEntry.encode/decode) and file-header codec (fileStore.save/open) have equal wire grammars; every counter of the store that statement paths advance is part of the header")
	checkCodecPair(c, rule, "storage.(*WALEntry).encode", "storage.(*WALEntry).decode")
	wi, _ := checkCodecPair(c, rule, "storage.(*fileStore).save", "storage.(*fileStore).open")
	inHeader := map[string]bool{}
	for _, it := range wi {
		if it.Field != nil {
			inHeader[it.Field.Name()] = true
		}
	}
	w := c.W
	m := w.Locks()
	if m.storeType == nil {
		return
	}
	// store fields changed on statement / recovery paths
	roots := []*Func{}
	for _, n := range w.SortedFuncNames() {
		f := w.Funcs[n]
		if f.Pkg == w.Pkgs["storage"] && ast.IsExported(f.Decl.Name.Name) {
			roots = append(roots, f)
		}
	}
	reach := w.CG().Reach(roots...)
	changed := map[string]token.Pos{}
	for f := range reach {
		if c.W.isStoreConstructor(f) || f.Name == "storage.(*fileStore).open" {
			continue
		}
		ast.Inspect(f.Decl.Body, func(n ast.Node) bool {
			var lhs []ast.Expr
			switch x := n.(type) {
			case *ast.AssignStmt:
				lhs = x.Lhs
				// a configuration value set once (`fs.autoFlushCache = true` in a constructor helper that was
				// written out at its call site) is not a counter that statements advance
				if x.Tok == token.ASSIGN && len(x.Rhs) == 1 && len(x.Lhs) == 1 {
					if cv := f.constOf(x.Rhs[0]); cv != nil && cv.Kind() == constant.Bool {
						lhs = nil
					}
				}
			case *ast.IncDecStmt:
				lhs = []ast.Expr{x.X}
			}
			for _, e := range lhs {
				if sel, ok := ast.Unparen(e).(*ast.SelectorExpr); ok {
					if v := fieldVar(f, sel); v != nil && m.isStoreField(v) && basicWidth(v.Type()) > 0 {
						if _, seen := changed[v.Name()]; !seen {
							changed[v.Name()] = sel.Pos()
						}
					}
				}
			}
			return true
		})
	}
	var names []string
	for n := range changed {
		names = append(names, n)
	}
	sortStrings(names)
	opaqueCodec := ""
	for _, fn := range []string{"storage.(*fileStore).save", "storage.(*fileStore).open"} {
		if f := w.F(fn); f != nil && w.opaque(f) != "" {
			opaqueCodec = fn + " " + w.opaque(f)
		}
	}
	for _, n := range names {
		key := "storage.fileStore|header-has|" + n
		if !inHeader[n] && opaqueCodec != "" {
			c.Undecided(rule, key, "not decided, because %s: which fields reach the header is not visible to the grammar extraction", opaqueCodec)
			continue
		}
		c.Check(inHeader[n], rule, key, changed[n], "counter "+n+" is saved in the file header", "fileStore."+n+" is advanced by statements but is not written to the file header: its value is lost at restart")
	}
	if len(names) < 3 {
		c.Undecided(rule, "storage.fileStore|header-fields", "only %d mutable scalar store fields found", len(names))
	}
}
