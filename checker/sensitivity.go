package main

// The sensitivity catalogue (DESIGN.md §2.6): seeded source mutations of the
// CURRENT tree, analysed (never executed) through an in-memory overlay. Each
// seed must make the named rule report a violation; a seed whose textual anchor
// no longer exists is reported as skipped. The catalogue tests the checker, not
// mkdb: its outcome is written to the evidence and printed, and never turns a
// property verdict into a violation.

import (
	"encoding/json"
	"os"
	"path/filepath"
	"regexp"
	"sort"
	"strings"
	"sync"
)

type Seed struct {
	Prop   string
	Name   string
	File   string // relative to the repository root
	Old    string // must occur exactly once
	New    string
	Expect string // rule id that must report a violation
	// Silent seeds are behaviour-preserving edits: NO rule of the property may fire.
	Silent bool
	// All replaces every occurrence of Old (used for renames); More holds further replace-all pairs.
	All  bool
	More [][2]string
	// Words: Old/More are identifiers, replaced as whole words only (\bname\b)
	Words bool
}

var seeds []Seed

func seed(s Seed) { seeds = append(seeds, s) }

type SeedResult struct {
	Name    string `json:"name"`
	Outcome string `json:"outcome"` // caught | missed | skipped | nocompile | quiet | false-alarm
	Detail  string `json:"detail"`
}

func runSensitivity(p *Property, dir, verif string) []SeedResult {
	var out []SeedResult
	for _, s := range seeds {
		if s.Prop != p.ID {
			continue
		}
		out = append(out, runSeed(p, s, dir))
	}
	return out
}

func runSeed(p *Property, s Seed, dir string) SeedResult {
	path := filepath.Join(dir, s.File)
	data, err := os.ReadFile(path)
	if err != nil {
		return SeedResult{s.Name, "skipped", "file missing: " + s.File}
	}
	src := string(data)
	var mut string
	if s.All {
		if strings.Count(src, s.Old) == 0 {
			return SeedResult{s.Name, "skipped", "anchor text not found in " + s.File}
		}
		rep := func(text, old, new string) string {
			if s.Words {
				return regexp.MustCompile(`\b`+regexp.QuoteMeta(old)+`\b`).ReplaceAllString(text, new)
			}
			return strings.ReplaceAll(text, old, new)
		}
		mut = rep(src, s.Old, s.New)
		for _, m := range s.More {
			mut = rep(mut, m[0], m[1])
		}
	} else {
		if strings.Count(src, s.Old) != 1 {
			return SeedResult{s.Name, "skipped", "anchor text not found exactly once in " + s.File}
		}
		mut = strings.Replace(src, s.Old, s.New, 1)
	}
	w, err := Load(LoadOpts{Dir: dir, Overlay: map[string][]byte{path: []byte(mut)}})
	if err != nil {
		return SeedResult{s.Name, "nocompile", err.Error()}
	}
	c := NewCtx(p.ID, w)
	func() {
		defer func() {
			if r := recover(); r != nil {
				c.Undecided("internal", "panic", "checker panicked: %v", r)
			}
		}()
		p.Run(c)
	}()
	var fired []string
	hit := false
	for _, o := range c.Obs {
		if o.Status == Undecided && s.Silent {
			fired = append(fired, "UNDECIDED "+o.Rule+" "+o.Key)
		}
		if o.Status == Violated {
			fired = append(fired, o.Rule+" "+o.Key)
			if o.Rule == s.Expect {
				hit = true
			}
		}
	}
	if s.Silent {
		// compare with the unmutated tree: only NEW violations count
		base, err := Load(LoadOpts{Dir: dir})
		if err == nil {
			bc := NewCtx(p.ID, base)
			p.Run(bc)
			old := map[string]bool{}
			for _, o := range bc.Obs {
				if o.Status == Violated {
					old[o.Rule+" "+o.Key] = true
				}
			}
			var fresh []string
			for _, f := range fired {
				if !old[f] {
					fresh = append(fresh, f)
				}
			}
			fired = fresh
		}
		if len(fired) == 0 {
			return SeedResult{s.Name, "quiet", "behaviour-preserving edit raised no report"}
		}
		return SeedResult{s.Name, "false-alarm", strings.Join(fired, "; ")}
	}
	if hit {
		return SeedResult{s.Name, "caught", strings.Join(fired, "; ")}
	}
	return SeedResult{s.Name, "missed", "expected " + s.Expect + "; fired: " + strings.Join(fired, "; ")}
}

// ---- seeded patches (sub-agent mutants and reverted fixes), thorough tier -------------------

type patchSeed struct {
	Name   string
	Path   string
	Expect bool // the property's own check is expected to report it
}

func patchSeedsFor(p *Property, verif string) []patchSeed {
	var out []patchSeed
	dirs, _ := filepath.Glob(filepath.Join(verif, "seeded", "*", "meta.json"))
	for _, m := range dirs {
		data, err := os.ReadFile(m)
		if err != nil {
			continue
		}
		var meta struct {
			ID     string   `json:"id"`
			Broken string   `json:"property_broken"`
			Checks []string `json:"checks_reporting_violation"`
		}
		if json.Unmarshal(data, &meta) != nil {
			continue
		}
		rel := false
		for _, c := range meta.Checks {
			if c == p.ID {
				rel = true
			}
		}
		if meta.Broken == p.ID || rel {
			out = append(out, patchSeed{meta.ID, filepath.Join(filepath.Dir(m), "patch.diff"), true})
		}
	}
	// reverted fixes: known_findings "fixed: property=<id> <commit> ..." lines name the property
	kf, _ := os.ReadFile(filepath.Join(verif, "known_findings.jsonl"))
	for _, line := range strings.Split(string(kf), "\n") {
		if !strings.HasPrefix(line, "fixed: property="+p.ID+" ") {
			continue
		}
		fields := strings.Fields(line)
		if len(fields) < 3 {
			continue
		}
		commit := fields[2]
		matches, _ := filepath.Glob(filepath.Join(verif, "seeded-fix-reverts", commit+"-*.diff"))
		for _, m := range matches {
			out = append(out, patchSeed{"revert-" + commit, m, true})
		}
	}
	return out
}

func runPatchSeeds(p *Property, dir, verif string) []SeedResult {
	seeds := patchSeedsFor(p, verif)
	res := make([]SeedResult, len(seeds))
	sem := make(chan struct{}, 6)
	var wg sync.WaitGroup
	for i, ps := range seeds {
		wg.Add(1)
		sem <- struct{}{}
		go func(i int, ps patchSeed) {
			defer wg.Done()
			defer func() { <-sem }()
			res[i] = runOnePatchSeed(p, dir, verif, ps)
		}(i, ps)
	}
	wg.Wait()
	return res
}

func runOnePatchSeed(p *Property, dir, verif string, ps patchSeed) SeedResult {
	var out []SeedResult
	for range []int{0} {
		tmp, err := patchedCopy(dir, ps.Path)
		if err != nil {
			out = append(out, SeedResult{ps.Name, "skipped", "patch does not apply to the current tree"})
			continue
		}
		w, err := Load(LoadOpts{Dir: tmp})
		if err != nil {
			os.RemoveAll(tmp)
			out = append(out, SeedResult{ps.Name, "nocompile", err.Error()})
			continue
		}
		c := NewCtx(p.ID, w)
		func() {
			defer func() {
				if r := recover(); r != nil {
					c.Undecided("internal", "panic", "checker panicked: %v", r)
				}
			}()
			p.Run(c)
		}()
		os.RemoveAll(tmp)
		var fired []string
		for _, o := range c.Obs {
			if o.Status == Violated {
				fired = append(fired, o.Rule+" "+o.Key)
			}
		}
		if len(fired) > 0 {
			if len(fired) > 4 {
				fired = append(fired[:4], "...")
			}
			out = append(out, SeedResult{ps.Name, "caught", strings.Join(fired, "; ")})
		} else {
			if why := documentedMiss(verif, ps.Name); why != "" {
				out = append(out, SeedResult{ps.Name, "documented-miss", "no violation reported — " + why})
			} else {
				out = append(out, SeedResult{ps.Name, "missed", "no violation reported"})
			}
		}
	}
	return out[0]
}

// ---- behaviour-preserving patches (/verif/benign): no rule may fire or become undecided ----------------

func runBenignPatches(p *Property, dir, verif string) []SeedResult {
	var out []SeedResult
	files, _ := filepath.Glob(filepath.Join(verif, "benign", "*", "patch.diff"))
	sort.Strings(files)
	// correctly implemented small features (/verif/features): property-preserving evolution of the code
	feats, _ := filepath.Glob(filepath.Join(verif, "features", "*", "patch.diff"))
	sort.Strings(feats)
	files = append(files, feats...)
	// reports that exist on the unpatched tree (recorded known findings) do not count
	old := map[string]bool{}
	if base, err := Load(LoadOpts{Dir: dir}); err == nil {
		bc := NewCtx(p.ID, base)
		p.Run(bc)
		for _, o := range bc.Obs {
			if o.Status == Violated {
				old[o.Rule+" "+o.Key] = true
			}
		}
	}
	out = make([]SeedResult, len(files))
	sem := make(chan struct{}, 6)
	var wg sync.WaitGroup
	for i, pf := range files {
		wg.Add(1)
		sem <- struct{}{}
		go func(i int, pf string) {
			defer wg.Done()
			defer func() { <-sem }()
			out[i] = runOneBenign(p, dir, pf, old)
		}(i, pf)
	}
	wg.Wait()
	return out
}

func runOneBenign(p *Property, dir, pf string, old map[string]bool) SeedResult {
	var out []SeedResult
	for range []int{0} {
		name := "benign:" + filepath.Base(filepath.Dir(pf))
		expected := ""
		if filepath.Base(filepath.Dir(filepath.Dir(pf))) == "features" {
			name = "feature:" + filepath.Base(filepath.Dir(pf))
			if data, err := os.ReadFile(filepath.Join(filepath.Dir(filepath.Dir(pf)), "EXPECTED.json")); err == nil {
				m := map[string]string{}
				if json.Unmarshal(data, &m) == nil {
					expected = m[filepath.Base(filepath.Dir(pf))]
				}
			}
		}
		tmp, err := patchedCopy(dir, pf)
		if err != nil {
			out = append(out, SeedResult{name, "skipped", "patch does not apply to the current tree"})
			continue
		}
		w, err := Load(LoadOpts{Dir: tmp})
		if err != nil {
			os.RemoveAll(tmp)
			out = append(out, SeedResult{name, "nocompile", err.Error()})
			continue
		}
		c := NewCtx(p.ID, w)
		func() {
			defer func() {
				if r := recover(); r != nil {
					c.Undecided("internal", "panic", "checker panicked: %v", r)
				}
			}()
			p.Run(c)
		}()
		os.RemoveAll(tmp)
		var fired []string
		for _, o := range c.Obs {
			if o.Status == Violated && !old[o.Rule+" "+o.Key] {
				fired = append(fired, o.Rule+" "+o.Key)
			}
			if o.Status == Undecided {
				fired = append(fired, "UNDECIDED "+o.Rule+" "+o.Key)
			}
		}
		onlyUndecided := len(fired) > 0
		for _, f := range fired {
			if !strings.HasPrefix(f, "UNDECIDED ") {
				onlyUndecided = false
			}
		}
		if len(fired) > 4 {
			fired = append(fired[:4], "...")
		}
		switch {
		case len(fired) == 0:
			out = append(out, SeedResult{name, "quiet", "behaviour-preserving patch raised no report"})
		case onlyUndecided:
			// the patch re-shapes an anchor beyond what normalisation undoes: no verdict, no alarm
			out = append(out, SeedResult{name, "undecided", strings.Join(fired, "; ")})
		case expected != "":
			out = append(out, SeedResult{name, "reported-as-expected", strings.Join(fired, "; ") + " — " + expected})
		default:
			out = append(out, SeedResult{name, "false-alarm", strings.Join(fired, "; ")})
		}
	}
	return out[0]
}

// documentedMiss: seeded changes that no rule reports, with the reason (seeded/KNOWN_MISSES.json, DESIGN.md §9).
func documentedMiss(verif, name string) string {
	b, err := os.ReadFile(filepath.Join(verif, "seeded", "KNOWN_MISSES.json"))
	if err != nil {
		return ""
	}
	m := map[string]string{}
	if json.Unmarshal(b, &m) != nil {
		return ""
	}
	return m[name]
}
