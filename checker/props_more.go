package main

// Rules added after the second round of independent mutants (DESIGN.md §9):
// sibling-agreement and ownership rules that are necessary conditions of several
// properties. Each is attached to the properties it is necessary for.

import (
	"bytes"
	"go/ast"
	"go/parser"
	"go/printer"
	"go/token"
	"go/types"
	"os"
	"os/exec"
	"path/filepath"
	"sort"
	"strings"

	"golang.org/x/tools/go/cfg"
)

// ---- A. catalog names are matched the same way everywhere --------------------------------

func ruleCatalogNameMatch(c *Ctx, rule string) {
	c.Rule(rule, "sibling agreement: every place in the storage layer that matches a catalog row's table_name against a table name uses the same comparison (today: ==). If lookup, schema retrieval, root update and creation disagree (one of them case-insensitive), two tables whose names differ only in case share or lose catalog rows")
	w := c.W
	type site struct {
		f    *Func
		pos  token.Pos
		kind string
	}
	var sites []site
	for _, name := range w.SortedFuncNames() {
		f := w.Funcs[name]
		if f.Pkg != w.Pkgs["storage"] {
			continue
		}
		// locals holding the catalog row's table name
		alias := map[types.Object]bool{}
		ast.Inspect(f.Decl.Body, func(x ast.Node) bool {
			if as, ok := x.(*ast.AssignStmt); ok && len(as.Rhs) == 1 && strings.Contains(exprKey(as.Rhs[0]), `Vals["table_name"]`) {
				if id, ok := as.Lhs[0].(*ast.Ident); ok {
					alias[f.ObjOf(id)] = true
				}
			}
			return true
		})
		isName := func(e ast.Expr) bool {
			if strings.Contains(exprKey(e), `Vals["table_name"]`) {
				return true
			}
			found := false
			ast.Inspect(e, func(z ast.Node) bool {
				if id, ok := z.(*ast.Ident); ok && alias[f.ObjOf(id)] {
					found = true
				}
				return true
			})
			return found
		}
		ast.Inspect(f.Decl.Body, func(x ast.Node) bool {
			switch y := x.(type) {
			case *ast.BinaryExpr:
				if (y.Op == token.EQL || y.Op == token.NEQ) && (isName(y.X) || isName(y.Y)) {
					sites = append(sites, site{f, y.Pos(), "=="})
				}
			case *ast.CallExpr:
				k := calleeKey(f.Callee(y))
				if strings.HasPrefix(k, "strings.") {
					for _, a := range y.Args {
						if isName(a) {
							sites = append(sites, site{f, y.Pos(), k})
							break
						}
					}
				}
			}
			return true
		})
	}
	if len(sites) < 3 {
		c.Undecided(rule, "subjects", "only %d catalog name comparisons found", len(sites))
		return
	}
	count := map[string]int{}
	for _, s := range sites {
		count[s.kind]++
	}
	major := ""
	for k, n := range count {
		if n > count[major] || (n == count[major] && k < major) {
			major = k
		}
	}
	for i, s := range sites {
		key := s.f.Name + "|table-name-match#" + itoa(i+1)
		c.Check(s.kind == major, rule, key, s.pos, "matches table names with "+s.kind+" like its siblings", "this site matches catalog table names with "+s.kind+" while "+itoa(count[major])+" sibling sites use "+major+": tables whose names differ only in case are confused by one path and kept apart by the others")
	}
}

// ---- B. log reader: full reads, fresh record per iteration, torn tail truncated ---------------

func ruleLogReader(c *Ctx, rule string) {
	c.Rule(rule, "the log reader reads through io.ReadFull only (a plain Read may return fewer bytes than asked at a buffer boundary, which would be mistaken for the end of the log); every record appended to the batch is a fresh object created in that loop iteration (a shared object would make every entry alias the last record); whenever a partial record ends the log (unexpected EOF in the length, EOF or unexpected EOF in the body) the partial bytes are cut off the file before the reader returns, so that later appends start at a record boundary")
	f := c.NeedFunc(rule, "storage.(*wal).read")
	if f == nil {
		return
	}
	g := f.Graph()
	// (1) raw reads
	raw := f.Calls(f.Decl.Body, false, "bufio.Reader.Read", "io.Reader.Read", "os.File.Read", "storage.readWriteSyncCloser.Read")
	key := f.Name + "|full-reads"
	if len(raw) > 0 {
		c.Fail(rule, key, raw[0].Pos(), "the log is read with a plain Read: a short read at a buffer boundary looks like a truncated record, and recovery drops (and truncates away) every acknowledged record after it")
	} else {
		c.OK(rule, key, f.Decl.Pos(), len(f.Calls(f.Decl.Body, false, "io.ReadFull")), "all reads go through io.ReadFull")
	}
	// (2) fresh record per iteration
	key = f.Name + "|fresh-record"
	var loop *ast.ForStmt
	inspectBody(f.Decl.Body, func(x ast.Node) bool {
		if fs, ok := x.(*ast.ForStmt); ok && loop == nil {
			loop = fs
		}
		return true
	})
	if loop == nil {
		c.Undecided(rule, key, "record loop not found")
	} else {
		okFresh := false
		found := false
		inspectBody(loop.Body, func(x ast.Node) bool {
			as, ok := x.(*ast.AssignStmt)
			if !ok || len(as.Rhs) != 1 {
				return true
			}
			call, ok := ast.Unparen(as.Rhs[0]).(*ast.CallExpr)
			if !ok || len(call.Args) != 2 {
				return true
			}
			if id, ok := call.Fun.(*ast.Ident); !ok || id.Name != "append" {
				return true
			}
			found = true
			arg := ast.Unparen(call.Args[1])
			if u, ok := arg.(*ast.UnaryExpr); ok && u.Op == token.AND {
				arg = ast.Unparen(u.X)
			}
			if id, ok := arg.(*ast.Ident); ok {
				obj := f.ObjOf(id)
				// declared inside the loop body?
				if obj != nil && loop.Body.Pos() <= obj.Pos() && obj.Pos() <= loop.Body.End() {
					okFresh = true
				}
			}
			return true
		})
		if !found {
			c.Undecided(rule, key, "no append of a decoded record in the loop")
		} else {
			c.Check(okFresh, rule, key, loop.Pos(), "each record is decoded into an object created in its own iteration", "the decoded record object is shared by all iterations: every entry of the returned batch aliases the last record read, so recovery replays the last record n times and loses the others")
		}
	}
	// (3) torn tail truncated (path-sensitive on boolean flags)
	reads := f.Calls(f.Decl.Body, false, "io.ReadFull")
	for i, rd := range reads {
		errObj := f.resultVar(f.Decl.Body, rd, 1)
		sentinels := []string{"io.ErrUnexpectedEOF"}
		if i > 0 {
			sentinels = []string{"io.EOF", "io.ErrUnexpectedEOF"}
		}
		for _, sentinel := range sentinels {
			key := f.Name + "|truncates-partial|ReadFull#" + itoa(i+1) + "|" + sentinel
			if errObj == nil {
				c.Undecided(rule, key, "error of the read is not bound to a variable")
				continue
			}
			loc, _ := g.Locate(rd)
			leak := pathSearchErrs(f, g, loc, map[types.Object]string{errObj: sentinel}, func(n ast.Node) Verdict {
				cut := false
				ast.Inspect(n, func(y ast.Node) bool {
					if call, ok := y.(*ast.CallExpr); ok {
						if sel, ok := call.Fun.(*ast.SelectorExpr); ok && sel.Sel.Name == "Truncate" {
							cut = true
						}
					}
					return true
				})
				if cut {
					return Cut
				}
				if r, ok := n.(*ast.ReturnStmt); ok {
					if len(r.Results) > 0 && isNilIdent(f, ast.Unparen(r.Results[len(r.Results)-1])) {
						return Hit
					}
					return Cut
				}
				return Go
			})
			if leak {
				c.Fail(rule, key, rd.Pos(), "when read #%d ends with %s (a record cut short by a crash) the reader can return success without truncating the partial bytes: the next statement's records are appended behind them and the following recovery misparses the log", i+1, sentinel)
			} else {
				c.OK(rule, key, rd.Pos(), 1, "the partial record is truncated before the reader returns")
			}
		}
	}
}

// pathSearchFlags explores paths from `from` tracking local boolean flags that are assigned
// constants on the way; condEval may decide a condition first (returns value, known).
// visit returns Cut / Hit / Go per node. Reports whether a Hit is reachable.
func pathSearchFlags(f *Func, g *Graph, from Loc, condEval func(ast.Expr) (bool, bool), visit func(ast.Node) Verdict) bool {
	type state struct {
		b     *cfg.Block
		start int
		flags string
	}
	encode := func(m map[types.Object]bool) string {
		var ks []string
		for o, v := range m {
			s := o.Name() + "@" + itoa(int(o.Pos())) + "=f"
			if v {
				s = s[:len(s)-1] + "t"
			}
			ks = append(ks, s)
		}
		sort.Strings(ks)
		return strings.Join(ks, ",")
	}
	seen := map[string]bool{}
	type item struct {
		b     *cfg.Block
		start int
		flags map[types.Object]bool
	}
	work := []item{{from.B, from.I + 1, map[types.Object]bool{}}}
	for len(work) > 0 {
		it := work[len(work)-1]
		work = work[:len(work)-1]
		k := itoa(int(it.b.Index)) + ":" + itoa(it.start) + ":" + encode(it.flags)
		if seen[k] {
			continue
		}
		seen[k] = true
		flags := map[types.Object]bool{}
		for o, v := range it.flags {
			flags[o] = v
		}
		stopped := false
		for i := it.start; i < len(it.b.Nodes); i++ {
			n := it.b.Nodes[i]
			switch visit(n) {
			case Hit:
				return true
			case Cut:
				stopped = true
			}
			if stopped {
				break
			}
			if as, ok := n.(*ast.AssignStmt); ok && len(as.Lhs) == len(as.Rhs) {
				for j, l := range as.Lhs {
					if id, ok := l.(*ast.Ident); ok {
						if cv := f.constOf(as.Rhs[j]); cv != nil && (cv.String() == "true" || cv.String() == "false") {
							flags[f.ObjOf(id)] = cv.String() == "true"
						} else {
							delete(flags, f.ObjOf(id))
						}
					}
				}
			}
		}
		if stopped {
			continue
		}
		if len(it.b.Succs) == 2 {
			if info, ok := g.EdgeInfo(it.b, 0); ok && (!info.Case || info.Synth != nil) {
				if info.Case {
					info.Cond = info.Synth
				}
				val, known := false, false
				if condEval != nil {
					val, known = condEval(info.Cond)
				}
				if !known {
					cond := ast.Unparen(info.Cond)
					neg := false
					if u, ok := cond.(*ast.UnaryExpr); ok && u.Op == token.NOT {
						neg, cond = true, ast.Unparen(u.X)
					}
					if id, ok := cond.(*ast.Ident); ok {
						if v, has := flags[f.ObjOf(id)]; has {
							val, known = v != neg, true
						} else if isCommaOK(f, id) {
							// an optional capability obtained by a checked assertion (the production
							// log file is an *os.File, which has it): assumed present
							val, known = !neg, true
						}
					}
				}
				for si, s := range it.b.Succs {
					if known && (si == 0) != val {
						continue
					}
					work = append(work, item{s, 0, flags})
				}
				continue
			}
		}
		for _, s := range it.b.Succs {
			work = append(work, item{s, 0, flags})
		}
	}
	return false
}

// ---- C/D/F. join + projection structure ---------------------------------------------------------

func ruleJoinNoEarlyReturn(c *Ctx, rule string) {
	c.Rule(rule, "between the evaluation of a join's two inputs and the dispatch on the join type there is no successful return: an early 'nothing to pair up' exit would drop the NULL-padded rows an outer join owes for its preserved side when the other side is empty")
	f := c.NeedFunc(rule, "engine.nestedLoopJoin")
	if f == nil {
		return
	}
	g := f.Graph()
	var last *ast.CallExpr
	for _, call := range f.Calls(f.Decl.Body, false, "engine.nestedLoopJoin") {
		if len(call.Args) == 2 && strings.HasSuffix(exprKey(call.Args[1]), ".RHS") {
			last = call
		}
	}
	var sw *ast.SwitchStmt
	inspectBody(f.Decl.Body, func(x ast.Node) bool {
		if s, ok := x.(*ast.SwitchStmt); ok && s.Tag != nil && strings.HasSuffix(exprKey(s.Tag), ".JoinType") {
			sw = s
		}
		return true
	})
	key := f.Name + "|inputs-to-dispatch"
	if last == nil || sw == nil {
		c.Undecided(rule, key, "input evaluation or join-type switch not found")
		return
	}
	loc, _ := g.Locate(last)
	tagLoc, _ := g.Locate(sw.Tag)
	early, _ := g.Forward(&loc, g.SuccessEdges, func(n ast.Node, at Loc) Verdict {
		if at == tagLoc {
			return Cut
		}
		if r, ok := n.(*ast.ReturnStmt); ok {
			if g.ReturnMayBeNil(r) {
				return Hit
			}
			return Cut
		}
		return Go
	}, nil)
	c.Check(!early, rule, key, last.Pos(), "every success path from the inputs reaches the join-type dispatch", "nestedLoopJoin can return successfully after evaluating its inputs without reaching the join-type dispatch: a LEFT (RIGHT) join with an empty right (left) input returns nothing instead of the NULL-padded preserved rows")
}

func ruleLookupKeys(c *Ctx, rule string) {
	c.Rule(rule, "select columns are told apart by their full reference: the maps that associate a select-list column with a position (projectColumns' lookup, aggregateRows' column index) are keyed by the ColumnReference (qualifier and name), not by the bare column name — otherwise e.name and m.name collapse to one position; and the loops over the select list process every element (no break that leaves the loop)")
	for _, fn := range []string{"engine.projectColumns", "engine.aggregateRows"} {
		f := c.NeedFunc(rule, fn)
		if f == nil {
			continue
		}
		n := 0
		ast.Inspect(f.Decl.Body, func(x ast.Node) bool {
			cl, ok := x.(*ast.CompositeLit)
			if !ok {
				return true
			}
			mt, ok := f.TypeOf(cl).Underlying().(*types.Map)
			if !ok {
				return true
			}
			if b, ok := mt.Elem().Underlying().(*types.Basic); !ok || b.Kind() != types.Int {
				return true
			}
			// a map to int positions: is it indexed by something derived from a select column?
			var name string
			ast.Inspect(f.Decl.Body, func(y ast.Node) bool {
				if as, ok := y.(*ast.AssignStmt); ok && len(as.Rhs) == 1 && as.Rhs[0] == ast.Expr(cl) {
					name = exprKey(as.Lhs[0])
				}
				return true
			})
			if name == "" {
				return true
			}
			// a position map is indexed (somewhere) by something derived from a column reference; the map from
			// group key to result row is indexed by a string built from row values
			byColumn := false
			ast.Inspect(f.Decl.Body, func(y ast.Node) bool {
				ix, ok := y.(*ast.IndexExpr)
				if !ok || exprKey(ix.X) != name {
					return true
				}
				ast.Inspect(ix.Index, func(z ast.Node) bool {
					if id, ok := z.(*ast.Ident); ok {
						if t := f.TypeOf(id); t != nil && namedTypeIs(t, "sql", "ColumnReference") {
							byColumn = true
						}
					}
					return true
				})
				return true
			})
			if !byColumn {
				return true
			}
			n++
			key := fn + "|position-map|" + typeName(mt.Key())
			okKey := namedTypeIs(mt.Key(), "sql", "ColumnReference")
			c.Check(okKey, rule, fn+"|position-map#"+itoa(n), cl.Pos(), "keyed by the full column reference", "the column-position map ("+key+") is keyed by "+typeName(mt.Key())+" instead of the full ColumnReference: same-named columns of different tables share one position")
			return true
		})
		// no break leaving a loop over the select list
		ast.Inspect(f.Decl.Body, func(x ast.Node) bool {
			rs, ok := x.(*ast.RangeStmt)
			if !ok {
				return true
			}
			t := f.TypeOf(rs.X)
			if t == nil || !namedTypeIs(t, "sql", "SelectList") {
				return true
			}
			key := fn + "|select-list-loop|" + itoa(int(f.w.Fset.Position(rs.Pos()).Line)-int(f.w.Fset.Position(f.Decl.Pos()).Line))
			bad := false
			var walk func(n ast.Node, breakable bool)
			walk = func(n ast.Node, inner bool) {
				ast.Inspect(n, func(y ast.Node) bool {
					if y == nil || y == n {
						return true
					}
					switch z := y.(type) {
					case *ast.FuncLit:
						return false
					case *ast.ForStmt, *ast.RangeStmt, *ast.SwitchStmt, *ast.TypeSwitchStmt, *ast.SelectStmt:
						return false // a break inside belongs to that statement
					case *ast.BranchStmt:
						if z.Tok == token.BREAK && z.Label == nil {
							bad = true
						}
					}
					return true
				})
			}
			walk(rs.Body, false)
			// a search is not a pass over all elements: `for i, col := range list { if match(col) { found = i; break } }`
			// stops at the first match by design (the loop body is that one if, which ends in the break)
			if bad && len(rs.Body.List) == 1 {
				if ifs, ok := rs.Body.List[0].(*ast.IfStmt); ok && ifs.Else == nil && len(ifs.Body.List) > 0 {
					if br, ok := ifs.Body.List[len(ifs.Body.List)-1].(*ast.BranchStmt); ok && br.Tok == token.BREAK && br.Label == nil {
						bad = false
					}
				}
			}
			// the same search with a guard first: `if !match(col) { continue }; found = i; break` — the body only
			// tests, records into plain locals and leaves
			if bad {
				search := true
				var only func(list []ast.Stmt)
				only = func(list []ast.Stmt) {
					for _, st := range list {
						switch y := st.(type) {
						case *ast.IfStmt:
							if y.Init != nil || !c.W.pureExpr(f, y.Cond) {
								search = false
							}
							only(y.Body.List)
							switch e := y.Else.(type) {
							case *ast.BlockStmt:
								only(e.List)
							case *ast.IfStmt:
								only([]ast.Stmt{e})
							}
						case *ast.BranchStmt:
							if y.Label != nil {
								search = false
							}
						case *ast.AssignStmt:
							for _, l := range y.Lhs {
								if _, isID := ast.Unparen(l).(*ast.Ident); !isID {
									search = false
								}
							}
							for _, r := range y.Rhs {
								if !c.W.pureExpr(f, r) {
									search = false
								}
							}
						case *ast.EmptyStmt:
						default:
							search = false
						}
					}
				}
				only(rs.Body.List)
				if search {
					bad = false
				}
			}
			// breaks nested in if statements directly in the loop body are found above; those inside inner switches are not
			key = fn + "|select-list-loop#" + itoa(len(c.Obs))
			c.Check(!bad, rule, fn+"|select-list-loop@"+exprKey(rs.Value), rs.Pos(), "the loop visits every select-list element", "a break leaves the loop over the select list: the elements after it are never resolved and silently read column 0")
			_ = key
			return true
		})
	}
}

// ---- E. AVG rounding ---------------------------------------------------------------------------------

func ruleAvgRounding(c *Ctx, rule string) {
	c.Rule(rule, "AVG is rounded to the nearest integer by math.Round applied to a floating-point quotient; an integer division (which truncates toward zero, so negative means are off by one) must not produce the stored average")
	f := c.NeedFunc(rule, "engine.aggregateRows")
	if f == nil {
		return
	}
	var arm *ast.CaseClause
	inspectBody(f.Decl.Body, func(x ast.Node) bool {
		if cc, ok := x.(*ast.CaseClause); ok {
			for _, e := range cc.List {
				if exprKey(e) == "sql.Average" {
					arm = cc
				}
			}
		}
		return true
	})
	key := f.Name + "|avg|nearest"
	if arm == nil {
		c.Undecided(rule, key, "no AVG arm")
		return
	}
	body := &ast.BlockStmt{List: arm.Body}
	rounds := f.Calls(body, false, "math.Round")
	intDiv := false
	inspectBody(body, func(x ast.Node) bool {
		if be, ok := x.(*ast.BinaryExpr); ok && be.Op == token.QUO {
			if b, ok := f.TypeOf(be).Underlying().(*types.Basic); ok && b.Info()&types.IsInteger != 0 {
				intDiv = true
			}
		}
		if as, ok := x.(*ast.AssignStmt); ok && as.Tok == token.QUO_ASSIGN {
			if b, ok := f.TypeOf(as.Lhs[0]).Underlying().(*types.Basic); ok && b.Info()&types.IsInteger != 0 {
				intDiv = true
			}
		}
		return true
	})
	floatQuot := false
	for _, r := range rounds {
		if be, ok := ast.Unparen(r.Args[0]).(*ast.BinaryExpr); ok && be.Op == token.QUO {
			if b, ok := f.TypeOf(be).Underlying().(*types.Basic); ok && b.Info()&types.IsFloat != 0 {
				floatQuot = true
			}
		}
	}
	switch {
	case intDiv:
		c.Fail(rule, key, arm.Pos(), "the AVG arm divides integers: the quotient truncates toward zero, so averages of negative values are wrong")
	case !floatQuot:
		c.Fail(rule, key, arm.Pos(), "the AVG arm does not round a floating-point quotient with math.Round")
	default:
		c.OK(rule, key, rounds[0].Pos(), 1, "math.Round(float quotient)")
	}
}

// ---- G. quote stripping ----------------------------------------------------------------------------------

func ruleStripQuotes(c *Ctx, rule string) {
	c.Rule(rule, "quote stripping removes exactly one character at each end of a quoted token (text[1:len(text)-1]); a Trim-style call strips every matching character and silently shortens literals that begin or end with a quote character")
	f := c.NeedFunc(rule, "sql.stripQuotes")
	if f == nil {
		return
	}
	key := f.Name + "|one-char-each-end"
	g := f.Graph()
	n := 0
	for _, r := range g.Returns() {
		if len(r.Results) != 1 {
			continue
		}
		e := ast.Unparen(r.Results[0])
		if cv := f.constOf(e); cv != nil {
			continue // the short-token guard
		}
		n++
		p := paramName(f, 0)
		if se, ok := e.(*ast.SliceExpr); ok && exprKey(se.X) == p && se.Low != nil && se.High != nil && exprKey(se.Low) == "1" && exprKey(se.High) == "len("+p+")-1" {
			c.OK(rule, key, r.Pos(), 1, "%s[1:len(%s)-1]", p, p)
			continue
		}
		trim := false
		ast.Inspect(e, func(y ast.Node) bool {
			if call, ok := y.(*ast.CallExpr); ok && strings.HasPrefix(calleeKey(f.Callee(call)), "strings.Trim") {
				trim = true
			}
			return true
		})
		if trim {
			c.Fail(rule, key, r.Pos(), "quotes are stripped with %s: every leading/trailing quote character goes, so 'rock \\'n\\'' or '\"to be\"' lose characters silently", exprKey(e))
		} else {
			c.Fail(rule, key, r.Pos(), "quote stripping returns %s instead of the token without its first and last character", exprKey(e))
		}
	}
	if n == 0 {
		c.Undecided(rule, key, "no stripping return found")
	}
}

// ---- H. vendored code equals its upstream except for the documented edits --------------------------------------

type vendored struct {
	file     string // relative to the repo
	upstream func(w *World) (string, error)
	pkg      string
	allow    map[string]string // function -> reason it may differ
	// allowDiff: for an allowed function that is still mostly a copy, the documented edit line by line
	// (upstream lines removed, local lines added; whitespace-trimmed). Any other difference is reported.
	allowDiff map[string]lineEdit
}

type lineEdit struct{ removed, added []string }

// lineDiff returns the lines of a that are not matched in b and vice versa (longest common subsequence).
func lineDiff(a, b []string) (removed, added []string) {
	n, m := len(a), len(b)
	l := make([][]int, n+1)
	for i := range l {
		l[i] = make([]int, m+1)
	}
	for i := n - 1; i >= 0; i-- {
		for j := m - 1; j >= 0; j-- {
			if a[i] == b[j] {
				l[i][j] = l[i+1][j+1] + 1
			} else if l[i+1][j] >= l[i][j+1] {
				l[i][j] = l[i+1][j]
			} else {
				l[i][j] = l[i][j+1]
			}
		}
	}
	i, j := 0, 0
	for i < n && j < m {
		switch {
		case a[i] == b[j]:
			i++
			j++
		case l[i+1][j] >= l[i][j+1]:
			removed = append(removed, a[i])
			i++
		default:
			added = append(added, b[j])
			j++
		}
	}
	removed = append(removed, a[i:]...)
	added = append(added, b[j:]...)
	return
}

func sameMultiset(a, b []string) bool {
	if len(a) != len(b) {
		return false
	}
	m := map[string]int{}
	for _, x := range a {
		m[x]++
	}
	for _, x := range b {
		m[x]--
	}
	for _, v := range m {
		if v != 0 {
			return false
		}
	}
	return true
}

func upstreamGoroot(rel string) func(*World) (string, error) {
	return func(w *World) (string, error) {
		out, err := exec.Command("go", "env", "GOROOT").Output()
		if err != nil {
			return "", err
		}
		return filepath.Join(strings.TrimSpace(string(out)), rel), nil
	}
}

func upstreamModule(mod, rel string) func(*World) (string, error) {
	return func(w *World) (string, error) {
		cmd := exec.Command("go", "list", "-m", "-f", "{{.Dir}}", mod)
		cmd.Dir = w.Dir
		cmd.Env = append(os.Environ(), "GOFLAGS=-mod=mod", "GOPROXY=off", "GOSUMDB=off", "GOWORK=off")
		out, err := cmd.Output()
		if err != nil {
			return "", err
		}
		return filepath.Join(strings.TrimSpace(string(out)), rel), nil
	}
}

func funcTexts(path string, src []byte) (map[string]string, error) {
	fset := token.NewFileSet()
	file, err := parser.ParseFile(fset, path, src, 0) // comments dropped
	if err != nil {
		return nil, err
	}
	out := map[string]string{}
	for _, d := range file.Decls {
		fd, ok := d.(*ast.FuncDecl)
		if !ok || fd.Body == nil {
			continue
		}
		name := fd.Name.Name
		if fd.Recv != nil && len(fd.Recv.List) == 1 {
			name = recvString(fd.Recv.List[0].Type) + "." + name
		}
		var buf bytes.Buffer
		printer.Fprint(&buf, fset, fd)
		// blank lines (left behind by dropped comments) are not significant
		var lines []string
		for _, l := range strings.Split(buf.String(), "\n") {
			if strings.TrimSpace(l) != "" {
				lines = append(lines, strings.TrimSpace(l))
			}
		}
		out[name] = strings.Join(lines, "\n")
	}
	return out, nil
}

func ruleVendoredEqualsUpstream(c *Ctx, rule string, v vendored) {
	c.Rule(rule, "sibling cross-check of vendored code against its upstream: every function of "+v.file+" that is not one of the documented local edits is identical (comments and positions ignored) to the function of the same name in the library it was copied from, whose source is present in this build environment. The copied code's own invariants (buffer sentinels, rune boundaries, nil-able parameters protected by value ranges) are thereby inherited rather than re-proved")
	w := c.W
	up, err := v.upstream(w)
	if err != nil {
		c.Undecided(rule, v.file+"|upstream", "upstream source not located: %v", err)
		return
	}
	upSrc, err := os.ReadFile(up)
	if err != nil {
		c.Undecided(rule, v.file+"|upstream", "upstream source not readable: %v", err)
		return
	}
	// the vendored file as the analysed world sees it (overlays included): use the parsed syntax positions' file
	local := filepath.Join(w.Dir, v.file)
	var locSrc []byte
	for _, p := range w.Pkgs {
		for i, f := range p.Syntax {
			if p.CompiledGoFiles[i] == local {
				var buf bytes.Buffer
				printer.Fprint(&buf, w.Fset, f)
				locSrc = buf.Bytes()
			}
		}
	}
	if locSrc == nil {
		c.Undecided(rule, v.file+"|local", "vendored file not part of the loaded packages")
		return
	}
	lf, err1 := funcTexts(local, locSrc)
	uf, err2 := funcTexts(up, upSrc)
	if err1 != nil || err2 != nil {
		c.Undecided(rule, v.file+"|parse", "cannot parse: %v %v", err1, err2)
		return
	}
	var names []string
	for n := range lf {
		names = append(names, n)
	}
	sort.Strings(names)
	same := 0
	for _, n0 := range names {
		n := n0
		// a documented local function under a new name (recognised by signature and body, inline.go)
		short := n
		prefix := ""
		if i := strings.LastIndex(n, "."); i >= 0 {
			prefix, short = n[:i+1], n[i+1:]
		}
		if old, ok := w.aliasShort[short]; ok {
			if _, allowed := v.allow[prefix+old]; allowed {
				lf[prefix+old] = lf[n]
				n = prefix + old
			}
		}
		key := v.file + "|" + n
		if reason, ok := v.allow[n]; ok {
			if want, fine := v.allowDiff[n]; fine {
				ut, has := uf[n]
				if !has {
					c.Fail(rule, key, token.NoPos, "function %s does not exist upstream", n)
					continue
				}
				rem, add := lineDiff(strings.Split(ut, "\n"), strings.Split(lf[n], "\n"))
				if sameMultiset(rem, want.removed) && sameMultiset(add, want.added) {
					c.OK(rule, key+"|documented-edit", token.NoPos, len(rem)+len(add), "differs from upstream exactly by the documented edit (%s)", reason)
				} else {
					var extra []string
					wantAdd := map[string]int{}
					for _, x := range want.added {
						wantAdd[x]++
					}
					for _, x := range add {
						if wantAdd[x] > 0 {
							wantAdd[x]--
						} else {
							extra = append(extra, "+ "+x)
						}
					}
					wantRem := map[string]int{}
					for _, x := range want.removed {
						wantRem[x]++
					}
					for _, x := range rem {
						if wantRem[x] > 0 {
							wantRem[x]--
						} else {
							extra = append(extra, "- "+x)
						}
					}
					if len(extra) > 6 {
						extra = append(extra[:6], "…")
					}
					c.Fail(rule, key+"|documented-edit", token.NoPos, "function %s differs from the upstream copy by more than its documented edit (%s): %s — the rest of the function is meant to stay a copy and relies on upstream's invariants", n, reason, strings.Join(extra, " | "))
				}
				continue
			}
			c.Note("%s: %s is a documented local edit (%s) and is not compared", rule, n, reason)
			continue
		}
		ut, has := uf[n]
		switch {
		case !has && localHelperOf(w, local, n, v.allow):
			c.Note("%s: %s is a new function called only from the documented local edits (%s): it belongs to them", rule, n, v.file)
		case !has:
			c.Fail(rule, key, token.NoPos, "function %s does not exist upstream and is not a documented local edit", n)
		case ut != lf[n]:
			c.Fail(rule, key, token.NoPos, "function %s differs from the upstream copy (%s): the vendored code relies on upstream's invariants (buffer sentinel, full-rune checks, short-circuit protected nil parameters), which an edit here can silently break", n, up)
		default:
			same++
		}
	}
	c.OK(rule, v.file+"|identical-functions", token.NoPos, same, "%d functions are identical to upstream %s", same, up)
}

var vendoredScanner = vendored{
	file:     "sql/go_scanner.go",
	upstream: upstreamGoroot("src/text/scanner/scanner.go"),
	allow: map[string]string{
		"(*Scanner).Scan":        "teaches the scanner single-quoted strings and double-quoted identifiers (the reason for the copy)",
		"(*Scanner).isIdentRune": "copied from go 1.18; upstream later added an EOF test",
	},
	allowDiff: map[string]lineEdit{
		"(*Scanner).Scan": {
			removed: []string{"tok = String", "if s.Mode&ScanChars != 0 {", "s.scanChar()", "tok = Char"},
			added:   []string{"tok = DelimIdent", "if s.Mode&ScanStrings != 0 {", "s.scanString('\\'')", "tok = String"},
		},
		"(*Scanner).isIdentRune": {
			removed: []string{"return ch != EOF && s.IsIdentRune(ch, i)"},
			added:   []string{"return s.IsIdentRune(ch, i)"},
		},
	},
}

var vendoredTerminal = vendored{
	file:     "cmd/console/go_terminal.go",
	upstream: upstreamModule("golang.org/x/term", "terminal.go"),
	allow: map[string]string{
		"(*Terminal).handleKey":       "multi-line statements: Enter submits only after an unquoted terminator (C20.1/C20.2 check it)",
		"(*Terminal).ReadLine":        "returns the list of statements",
		"(*Terminal).readLine":        "returns the list of statements (C20.5 checks its buffer invariant)",
		"(*Terminal).moveCursorToPos": "multi-line cursor handling",
		"splitStatements":             "local addition (C20.1 checks it)",
	},
}

// ruleRemainderInvariant: readLine keeps unconsumed input at the front of its fixed buffer.
func ruleRemainderInvariant(c *Ctx, rule string) {
	c.Rule(rule, "the console's unconsumed input is always a prefix of its own input buffer: Terminal.remainder is assigned only nil or a slice of Terminal.inBuf starting at 0 (after copying the leftover bytes to the front); the read that follows appends at inBuf[len(remainder):], so a remainder that aliases the middle of the buffer would be overwritten and a multi-byte character cut by a read boundary corrupted")
	f := c.NeedFunc(rule, "console.(*Terminal).readLine")
	if f == nil {
		return
	}
	r := recvName(f)
	n := 0
	inspectBody(f.Decl.Body, func(x ast.Node) bool {
		as, ok := x.(*ast.AssignStmt)
		if !ok || len(as.Lhs) != 1 || exprKey(as.Lhs[0]) != r+".remainder" {
			return true
		}
		n++
		key := f.Name + "|remainder-store#" + itoa(n)
		rhs := ast.Unparen(as.Rhs[0])
		ok = isNilIdent(f, rhs)
		if se, isS := rhs.(*ast.SliceExpr); isS && exprKey(se.X) == r+".inBuf" && se.Low == nil {
			ok = true
		}
		c.Check(ok, rule, key, as.Pos(), "nil or a prefix of the input buffer", "the remainder is set to "+exprKey(rhs)+", which is not a prefix of the input buffer: the next read overwrites or misplaces the unconsumed bytes")
		return true
	})
	if n < 2 {
		c.Undecided(rule, f.Name+"|remainder", "only %d assignments of the remainder found", n)
	}
	// the window after a read: what was pending plus what was read. The read appends at inBuf[L:], so the new
	// prefix must reach L + (bytes read)
	for i, rd := range f.Calls(f.Decl.Body, false, "io.Reader.Read", "os.File.Read") {
		if len(rd.Args) != 1 {
			continue
		}
		target := ast.Unparen(rd.Args[0])
		if id, ok := target.(*ast.Ident); ok {
			if rhs, _, ok := f.definedBy(f.Decl.Body, f.ObjOf(id)); ok && rhs != nil {
				target = ast.Unparen(rhs)
			}
		}
		se, ok := target.(*ast.SliceExpr)
		if !ok || exprKey(se.X) != r+".inBuf" || se.Low == nil {
			continue
		}
		low := exprKey(se.Low)
		cnt := f.resultVar(f.Decl.Body, rd, 0)
		if cnt == nil {
			continue
		}
		key := f.Name + "|window-after-read#" + itoa(i+1)
		found, okWin := false, true
		inspectBody(f.Decl.Body, func(x ast.Node) bool {
			as, ok := x.(*ast.AssignStmt)
			if !ok || len(as.Lhs) != 1 || exprKey(as.Lhs[0]) != r+".remainder" || as.Pos() < rd.Pos() {
				return true
			}
			w, isS := ast.Unparen(as.Rhs[0]).(*ast.SliceExpr)
			if !isS || w.High == nil || exprKey(w.X) != r+".inBuf" {
				return true
			}
			found = true
			hi := exprKey(w.High)
			usesCount := false
			ast.Inspect(w.High, func(y ast.Node) bool {
				if id, ok := y.(*ast.Ident); ok && f.ObjOf(id) == cnt {
					usesCount = true
				}
				return true
			})
			if !usesCount || !strings.Contains(hi, low) {
				okWin = false
			}
			return true
		})
		if found {
			c.Check(okWin, rule, key, rd.Pos(), "the window after the read is pending + read bytes", "the read appends at inBuf["+low+":] but the window kept afterwards does not reach "+low+" + the number of bytes read: when a partial key (a multi-byte character cut by the previous read) was pending, the last bytes just read are dropped")
		}
	}
}

// ---- I. stale derived values ------------------------------------------------------------------------------

func ruleStaleDerived(c *Ctx, rule string) {
	c.Rule(rule, "no stale derived value in the tree walks: a local computed from the current page before a loop that moves to another page (reassigns the page variable) must not be used inside that loop — routing or scanning with the previous page's cell count or offsets misses keys below the first level")
	w := c.W
	n := 0
	for _, name := range w.SortedFuncNames() {
		f := w.Funcs[name]
		if !strings.HasPrefix(name, "storage.(*BTree).") {
			continue
		}
		ast.Inspect(f.Decl.Body, func(x ast.Node) bool {
			var body *ast.BlockStmt
			var loopPos token.Pos
			switch l := x.(type) {
			case *ast.ForStmt:
				body, loopPos = l.Body, l.Pos()
			case *ast.RangeStmt:
				body, loopPos = l.Body, l.Pos()
			}
			if body == nil {
				return true
			}
			// page variables reassigned in the loop
			moved := map[types.Object]bool{}
			ast.Inspect(body, func(y ast.Node) bool {
				if as, ok := y.(*ast.AssignStmt); ok && as.Tok == token.ASSIGN {
					for _, l := range as.Lhs {
						if id, ok := l.(*ast.Ident); ok {
							if t := f.TypeOf(id); t != nil && namedTypeIs(t, "storage", "btreeNode") {
								moved[f.ObjOf(id)] = true
							}
						}
					}
				}
				return true
			})
			if len(moved) == 0 {
				return true
			}
			n++
			// a local derived from a page that the loop moves: after the move no path may reach a use of it before it
			// is computed again (the walk would work with the previous page's cell count or offsets)
			bad := ""
			g := f.Graph()
			derived := map[types.Object]string{}
			ast.Inspect(f.Decl.Body, func(y ast.Node) bool {
				as, ok := y.(*ast.AssignStmt)
				if !ok || len(as.Rhs) != len(as.Lhs) {
					return true
				}
				for i, l := range as.Lhs {
					id, ok := l.(*ast.Ident)
					if !ok || id.Name == "_" {
						continue
					}
					if t := f.TypeOf(id); t != nil && namedTypeIs(t, "storage", "btreeNode") {
						continue
					}
					dep := false
					ast.Inspect(as.Rhs[i], func(z ast.Node) bool {
						if zi, ok := z.(*ast.Ident); ok && moved[f.ObjOf(zi)] {
							dep = true
						}
						return true
					})
					if dep && !moved[f.ObjOf(id)] {
						derived[f.ObjOf(id)] = id.Name + " (" + exprKey(as.Rhs[i]) + ")"
					}
				}
				return true
			})
			defines := func(nn ast.Node, obj types.Object) bool {
				_, isSpec := nn.(*ast.ValueSpec)
				if ds, ok := nn.(*ast.DeclStmt); ok || isSpec {
					def := false
					var root ast.Node = nn
					if ok {
						root = ds
					}
					ast.Inspect(root, func(z ast.Node) bool {
						if vs, ok := z.(*ast.ValueSpec); ok {
							for _, nm := range vs.Names {
								if f.ObjOf(nm) == obj {
									def = true
								}
							}
						}
						return true
					})
					return def
				}
				as, ok := nn.(*ast.AssignStmt)
				if !ok {
					return false
				}
				for _, l := range as.Lhs {
					if id, ok := l.(*ast.Ident); ok && f.ObjOf(id) == obj {
						return true
					}
				}
				return false
			}
			usesObj := func(nn ast.Node, obj types.Object) bool {
				hit := false
				var lhs map[*ast.Ident]bool
				if as, ok := nn.(*ast.AssignStmt); ok {
					lhs = map[*ast.Ident]bool{}
					for _, l := range as.Lhs {
						if id, ok := l.(*ast.Ident); ok {
							lhs[id] = true
						}
					}
				}
				if _, isDecl := nn.(*ast.DeclStmt); isDecl {
					return false
				}
				if vs, isSpec := nn.(*ast.ValueSpec); isSpec {
					for _, v := range vs.Values {
						if usesIn(f, v, obj) {
							return true
						}
					}
					return false
				}
				ast.Inspect(nn, func(z ast.Node) bool {
					if zi, ok := z.(*ast.Ident); ok && f.ObjOf(zi) == obj && !lhs[zi] {
						hit = true
					}
					return !hit
				})
				return hit
			}
			ast.Inspect(body, func(y ast.Node) bool {
				mv, ok := y.(*ast.AssignStmt)
				if !ok || mv.Tok != token.ASSIGN {
					return true
				}
				isMove := false
				for _, l := range mv.Lhs {
					if id, ok := l.(*ast.Ident); ok && moved[f.ObjOf(id)] {
						isMove = true
					}
				}
				ml, located := g.Locate(mv)
				if !isMove || !located {
					return true
				}
				for obj, descr := range derived {
					stale, _ := g.Forward(&ml, nil, func(nn ast.Node, at Loc) Verdict {
						if usesObj(nn, obj) {
							return Hit
						}
						if defines(nn, obj) {
							return Cut
						}
						return Go
					}, nil)
					if stale && (bad == "" || descr < bad) {
						bad = descr
					}
				}
				return true
			})
			key := f.Name + "|loop@" + itoa(n)
			if bad != "" {
				c.Fail(rule, key, loopPos, "%s is computed from the page before the loop that moves to other pages, and is used inside it: below the first level the walk works with a stale value", bad)
			} else {
				c.OK(rule, key, loopPos, 1, "nothing derived from the page outside the loop is used after the page changes")
			}
			return true
		})
	}
	if n < 3 {
		c.Undecided(rule, "subjects", "only %d page-moving loops found in BTree", n)
	}
}

// ---- J. decoder accepts everything the encoder can emit ---------------------------------------------------------

func ruleDecoderBounds(c *Ctx, rule string) {
	c.Rule(rule, "readers accept everything writers can emit: a guard in a page decoder that compares a length or count read from the page with a capacity constant must not reject a value the insert path accepts (value sizes up to and including maxValueSize, cell counts up to the capacity constants)")
	n := 0
	for _, fn := range []string{"storage.(*btreeNode).decodeLeaf", "storage.(*btreeNode).decodeInternal"} {
		f := c.NeedFunc(rule, fn)
		if f == nil {
			continue
		}
		inspectBody(f.Decl.Body, func(x ast.Node) bool {
			ifs, ok := x.(*ast.IfStmt)
			if !ok {
				return true
			}
			be, ok := ast.Unparen(ifs.Cond).(*ast.BinaryExpr)
			if !ok {
				return true
			}
			cst := f.namedConst(be.Y)
			if cst == nil {
				cst = f.namedConst(f.stripConv(be.Y))
			}
			if cst == nil || !(cst.Name() == "maxValueSize" || strings.HasPrefix(cst.Name(), "max")) {
				return true
			}
			n++
			key := fn + "|guard|" + exprKey(ifs.Cond)
			// rejecting branch?
			rejects := false
			for _, st := range ifs.Body.List {
				if r, ok := st.(*ast.ReturnStmt); ok && len(r.Results) == 1 && !isNilIdent(f, ast.Unparen(r.Results[0])) {
					rejects = true
				}
			}
			if !rejects {
				return true
			}
			okBound := be.Op == token.GTR
			c.Check(okBound, rule, key, ifs.Pos(), "rejects only values above "+cst.Name(), "the decoder rejects values "+be.Op.String()+" "+cst.Name()+", but the write path accepts values up to and including "+cst.Name()+": a page holding such a value cannot be read back")
			return true
		})
	}
	if n == 0 {
		c.OK(rule, "storage.decode|no-capacity-guards", token.NoPos, 2, "the page decoders contain no capacity guard that could disagree with the write path (2 decoders examined)")
	}
}

// ---- K. encoders write into their own buffer --------------------------------------------------------------------

func ruleEncodeFreshBuffer(c *Ctx, rule string) {
	c.Rule(rule, "a row is encoded into a buffer of its own: Tuple.Encode allocates its output buffer itself; encoding over bytes that are still the live content of a cell would change the stored row before validation of the later columns can refuse the statement")
	f := c.NeedFunc(rule, "storage.(*Tuple).Encode")
	if f == nil {
		return
	}
	key := f.Name + "|own-buffer"
	var bufObj types.Object
	for _, r := range f.Graph().Returns() {
		if len(r.Results) == 2 {
			if id, ok := ast.Unparen(r.Results[0]).(*ast.Ident); ok && !isNilIdent(f, id) {
				bufObj = f.ObjOf(id)
			}
		}
	}
	if bufObj == nil {
		c.Undecided(rule, key, "returned buffer not found")
		return
	}
	fresh := true
	nAssign := 0
	ast.Inspect(f.Decl.Body, func(x ast.Node) bool {
		as, ok := x.(*ast.AssignStmt)
		if !ok {
			return true
		}
		for i, l := range as.Lhs {
			if id, ok := l.(*ast.Ident); ok && f.ObjOf(id) == bufObj && i < len(as.Rhs) {
				nAssign++
				s := exprKey(as.Rhs[i])
				if s != "&bytes.Buffer{}" && s != "new(bytes.Buffer)" && s != "bytes.NewBuffer(nil)" {
					fresh = false
				}
			}
		}
		return true
	})
	c.Check(fresh && nAssign >= 1, rule, key, f.Decl.Pos(), "output buffer is allocated inside Encode", "Tuple.Encode writes into a buffer it did not allocate itself (it may alias the cell being replaced): a refused UPDATE has already overwritten the leading columns of the stored row")
}

// ---- N. page objects are owned by the cache ----------------------------------------------------------------------

func ruleNodeOwnership(c *Ctx, rule string) {
	c.Rule(rule, "page objects are reachable only through the cache: no long-lived struct of the storage layer (tree handle, store, service) keeps a *btreeNode field; only the cache entry and the transient back pointer of a scanned cell hold one. A tree that keeps its root object would go on changing an object that may since have been evicted, and the change is never flushed")
	w := c.W
	allowed := map[string]string{"cacheEntry.val": "the cache's own entry", "leafCell.pg": "transient back pointer set by a scan/lookup for the cell it just found", "memoryStore.pages": "in-memory test double declared in page.go"}
	scope := w.Pkgs["storage"].Types.Scope()
	n := 0
	for _, name := range scope.Names() {
		tn, ok := scope.Lookup(name).(*types.TypeName)
		if !ok {
			continue
		}
		st, ok := tn.Type().Underlying().(*types.Struct)
		if !ok {
			continue
		}
		for i := 0; i < st.NumFields(); i++ {
			fld := st.Field(i)
			// a pointer to a page, or a slice / array / map / channel of such pointers
			var holds func(t types.Type, depth int) bool
			holds = func(t types.Type, depth int) bool {
				if depth > 4 {
					return false
				}
				switch u := t.(type) {
				case *types.Pointer:
					return namedTypeIs(u, "storage", "btreeNode")
				case *types.Slice:
					return holds(u.Elem(), depth+1)
				case *types.Array:
					return holds(u.Elem(), depth+1)
				case *types.Map:
					return holds(u.Elem(), depth+1) || holds(u.Key(), depth+1)
				case *types.Chan:
					return holds(u.Elem(), depth+1)
				}
				return false
			}
			if !holds(fld.Type(), 0) {
				continue
			}
			n++
			key := "storage." + name + "." + fld.Name() + "|holds-page"
			_, ok := allowed[name+"."+fld.Name()]
			if !ok && !pinnedTypes["storage."+name] && len(pinnedTypes) > 0 {
				c.Undecided(rule, key, "the new type %s holds a page object: whether it only lives for the duration of one call (harmless) or outlives an eviction is not decided", name)
				continue
			}
			c.Check(ok, rule, key, fld.Pos(), "allowed holder: "+allowed[name+"."+fld.Name()], name+"."+fld.Name()+" keeps a page object outside the cache: after the page is evicted the holder keeps changing an orphan that is never flushed, so results depend on the cache size")
		}
	}
	if n < 2 {
		c.Undecided(rule, "subjects", "only %d *btreeNode fields found", n)
	}
	// the tree handle re-fetches its root by offset
	if f := c.NeedFunc(rule, "storage.(*BTree).getRoot"); f != nil {
		okFetch := false
		for _, r := range f.Graph().Returns() {
			if len(r.Results) == 1 {
				if call, ok := ast.Unparen(r.Results[0]).(*ast.CallExpr); ok && f.CallIs(call, "storage.*.fetch") {
					okFetch = true
				} else {
					okFetch = false
				}
			} else {
				okFetch = false
			}
		}
		c.Check(okFetch, rule, f.Name+"|fetches-by-offset", f.Decl.Pos(), "the root is fetched through the store by its offset every time", "BTree.getRoot can return a page object without fetching it through the store")
	}
}

// ---- O. no process-wide mutable state ---------------------------------------------------------------------------

func ruleNoGlobalState(c *Ctx, rule string, pkgs ...string) {
	c.Robust(rule)
	if len(pkgs) == 0 {
		pkgs = []string{"storage", "engine"}
	}
	c.Rule(rule, "databases share nothing in memory: package-level variables of storage and engine are written only by their declarations and init functions. A cache or counter kept in a package-level variable is shared by every database opened in the process")
	w := c.W
	n := 0
	for _, pk := range pkgs {
		p := w.Pkgs[pk]
		for _, name := range w.SortedFuncNames() {
			f := w.Funcs[name]
			if f.Pkg != p || strings.HasPrefix(f.Decl.Name.Name, "init") {
				continue
			}
			ast.Inspect(f.Decl.Body, func(x ast.Node) bool {
				var lhs []ast.Expr
				// a mutating method of a package-level synchronised container (sync.Map, sync.Pool …) is a write too
				if call, ok := x.(*ast.CallExpr); ok {
					if sel, ok := ast.Unparen(call.Fun).(*ast.SelectorExpr); ok {
						switch sel.Sel.Name {
						case "Store", "LoadOrStore", "LoadAndDelete", "Delete", "Swap", "CompareAndSwap", "Put", "Add":
							if id, ok := ast.Unparen(sel.X).(*ast.Ident); ok {
								if v, ok := f.ObjOf(id).(*types.Var); ok && v.Pkg() != nil && v.Parent() == v.Pkg().Scope() && pkgKey(v.Pkg().Path()) != "" {
									lhs = []ast.Expr{sel.X}
								}
							}
						}
					}
				}
				switch y := x.(type) {
				case *ast.AssignStmt:
					if y.Tok == token.DEFINE {
						return true
					}
					lhs = y.Lhs
				case *ast.IncDecStmt:
					lhs = []ast.Expr{y.X}
				case *ast.CallExpr:
					if id, ok := y.Fun.(*ast.Ident); ok && id.Name == "delete" && len(y.Args) == 2 {
						lhs = []ast.Expr{y.Args[0]}
					}
				}
				for _, l := range lhs {
					root := l
					for {
						switch z := ast.Unparen(root).(type) {
						case *ast.IndexExpr:
							root = z.X
							continue
						case *ast.SelectorExpr:
							if _, isField := f.Pkg.TypesInfo.Selections[z]; isField {
								root = z.X
								continue
							}
						case *ast.StarExpr:
							root = z.X
							continue
						}
						break
					}
					id, ok := ast.Unparen(root).(*ast.Ident)
					if !ok {
						continue
					}
					v, ok := f.ObjOf(id).(*types.Var)
					if !ok || v.Pkg() == nil || v.Parent() != v.Pkg().Scope() {
						continue
					}
					n++
					c.Fail(rule, f.Name+"|writes-global|"+v.Name(), l.Pos(), "%s writes the package-level variable %s at run time: the state is shared by every database (and every session) in the process", f.Name, v.Name())
				}
				return true
			})
		}
	}
	if n == 0 {
		c.OK(rule, "storage+engine|no-runtime-global-writes", token.NoPos, len(w.Funcs), "no function outside init writes a package-level variable (%d functions examined)", len(w.Funcs))
	}
}

// ---- P. a failed lookup never yields an index -----------------------------------------------------------------------

func ruleLookupErrors(c *Ctx, rule string) {
	c.Rule(rule, "a failed column lookup never yields an index that is used: wherever the engine resolves a column (findColumnInFieldList / LookupFieldIdx / LookupColIdxByID), every path on the error edge returns an error before the index can be used — swallowing one kind of lookup error (ambiguous column) lets -1 through as an index and the next row access panics")
	w := c.W
	n := 0
	for _, name := range w.SortedFuncNames() {
		f := w.Funcs[name]
		if f.Pkg != w.Pkgs["engine"] {
			continue
		}
		for _, call := range f.Calls(f.Decl.Body, true, "engine.findColumnInFieldList", "storage.Fields.LookupFieldIdx", "storage.Fields.LookupColIdxByID") {
			body := f.EnclosingBody(call)
			g := body.Graph()
			n++
			key := body.Name() + "|lookup#" + itoa(n)
			// returned directly?
			direct := false
			for _, r := range g.Returns() {
				for _, e := range r.Results {
					if ast.Unparen(e) == ast.Expr(call) {
						direct = true
					}
				}
			}
			if direct {
				c.OK(rule, key, call.Pos(), 1, "index and error are returned together")
				continue
			}
			es := errSucc(f, g, body.Node, call)
			if es == nil {
				c.Fail(rule, key, call.Pos(), "the error of the column lookup is not examined before the index is used")
				continue
			}
			// the enclosing if statement of the error test
			var ifs *ast.IfStmt
			errObj := f.resultVar(body.Node, call, 1)
			inspectBody(body.Node, func(x ast.Node) bool {
				if s, ok := x.(*ast.IfStmt); ok && ifs == nil && s.Pos() > call.Pos() {
					if o, _, isErr := f.errTest(s.Cond); isErr && o == errObj {
						ifs = s
					}
				}
				return true
			})
			leak := false
			start := Loc{es, -1}
			g.Forward(&start, nil, func(nn ast.Node, at Loc) Verdict {
				if r, ok := nn.(*ast.ReturnStmt); ok {
					if len(r.Results) > 0 && isNilIdent(f, ast.Unparen(r.Results[len(r.Results)-1])) {
						leak = true
						return Hit
					}
					return Cut
				}
				if ifs != nil && nn.Pos() >= ifs.End() {
					leak = true
					return Hit
				}
				return Go
			}, nil)
			c.Check(!leak, rule, key, call.Pos(), "every path on the error edge returns the error", "a path on the error edge of the column lookup falls through (or returns success): the -1 index of an unresolved or ambiguous column is used and the row access panics")
		}
	}
	if n < 4 {
		c.Undecided(rule, "subjects", "only %d column lookups found in the engine", n)
	}
}

// ---- Q. cell mutators are atomic -----------------------------------------------------------------------------------

func ruleMutatorAtomic(c *Ctx, rule string) {
	c.Rule(rule, "the cell mutators refuse before they change anything: in insertLeafCell and updateCell no store to the page (offsets, cells, sizes) is followed by an error return — a refused row must not leave a reserved offset slot or a changed size behind")
	for _, fn := range []string{"storage.(*btreeNode).insertLeafCell", "storage.(*btreeNode).updateCell"} {
		f := c.NeedFunc(rule, fn)
		if f == nil {
			continue
		}
		g := f.Graph()
		recv := recvName(f)
		var muts []ast.Node
		inspectBody(f.Decl.Body, func(x ast.Node) bool {
			if as, ok := x.(*ast.AssignStmt); ok {
				for _, l := range as.Lhs {
					root := l
					for {
						switch z := ast.Unparen(root).(type) {
						case *ast.IndexExpr:
							root = z.X
							continue
						case *ast.SelectorExpr:
							root = z.X
							continue
						}
						break
					}
					if id, ok := ast.Unparen(root).(*ast.Ident); ok && id.Name == recv {
						muts = append(muts, as)
					}
				}
			}
			return true
		})
		key := fn + "|no-error-after-store"
		if len(muts) == 0 {
			c.Undecided(rule, key, "no store to the page found")
			continue
		}
		bad := ""
		for _, m := range muts {
			loc, _ := g.Locate(m)
			hit, _ := g.Forward(&loc, nil, func(nn ast.Node, at Loc) Verdict {
				if r, ok := nn.(*ast.ReturnStmt); ok {
					if len(r.Results) > 0 && !isNilIdent(f, ast.Unparen(r.Results[len(r.Results)-1])) {
						return Hit
					}
					return Cut
				}
				return Go
			}, nil)
			if hit {
				bad = f.w.Pos(m.Pos())
				break
			}
		}
		c.Check(bad == "", rule, key, f.Decl.Pos(), itoa(len(muts))+" stores, none followed by an error return", "the page is changed at "+bad+" and the function can still return an error afterwards: a refused row leaves a dangling offset slot or a wrong size in the page (the next scan indexes out of range, or the page no longer decodes after a reload)")
	}
}

// ---- L. statement loops: nothing else may fail between mutations ------------------------------------------------------

func ruleLoopOnlyMutatorFails(c *Ctx, rule string) {
	c.Rule(rule, "once a per-row loop has started changing rows, nothing but the mutator itself may fail: inside a loop that calls a logged mutator, no other call's error leads to a return — filtering and evaluation (whose errors depend on the row) must be complete before the first row is changed")
	w := c.W
	cg := w.CG()
	n := 0
	for _, name := range w.SortedFuncNames() {
		f := w.Funcs[name]
		if f.Pkg != w.Pkgs["engine"] {
			continue
		}
		for _, cs := range cg.Sites[f] {
			if !returnsWALBatch(cs.Callee) {
				continue
			}
			loop := enclosingLoop(f.Decl.Body, cs.Call)
			if loop == nil {
				continue
			}
			n++
			key := f.Name + "|loop-other-failures|" + calleeKey(cs.Callee)
			var body *ast.BlockStmt
			switch l := loop.(type) {
			case *ast.RangeStmt:
				body = l.Body
			case *ast.ForStmt:
				body = l.Body
			}
			bad := ""
			inspectBody(body, func(x ast.Node) bool {
				call, ok := x.(*ast.CallExpr)
				if !ok || call == cs.Call {
					return true
				}
				sig, _ := f.TypeOf(call.Fun).(*types.Signature)
				if sig == nil || sig.Results().Len() == 0 || !isErrorType(sig.Results().At(sig.Results().Len()-1).Type()) {
					return true
				}
				if returnsWALBatch(f.Callee(call)) {
					return true
				}
				// is its error returned inside the loop?
				eo := f.resultVar(body, call, sig.Results().Len()-1)
				if eo == nil {
					return true
				}
				inspectBody(body, func(y ast.Node) bool {
					if r, ok := y.(*ast.ReturnStmt); ok && r.Pos() > call.Pos() {
						for _, e := range r.Results {
							if id, ok := ast.Unparen(e).(*ast.Ident); ok && f.ObjOf(id) == eo {
								bad = exprKey(call.Fun)
							}
						}
					}
					return true
				})
				return true
			})
			c.Check(bad == "", rule, key, loop.Pos(), "only the mutator can end the loop with an error", "inside the row loop "+bad+" can fail and end the statement with an error after earlier rows were already changed (and left unlogged)")
		}
	}
	if n < 3 {
		c.Undecided(rule, "subjects", "only %d per-row mutator loops found", n)
	}
}

// ---- round 3 additions -------------------------------------------------------------------------------

// ruleNoSelfFormat: a String()/Error() method must not hand its own receiver to fmt (infinite recursion).
func ruleNoSelfFormat(c *Ctx, rule string, pkgs ...string) {
	c.Robust(rule) // about every String()/Error() method, a new one included
	c.Rule(rule, "no String()/Error() method formats its own receiver with a fmt verb: fmt would call the method again without end and the process dies with a stack overflow that recover() cannot catch")
	w := c.W
	n := 0
	for _, name := range w.SortedFuncNames() {
		f := w.Funcs[name]
		okPkg := false
		for _, p := range pkgs {
			if f.Pkg == w.Pkgs[p] {
				okPkg = true
			}
		}
		if !okPkg || f.Decl.Recv == nil || (f.Decl.Name.Name != "String" && f.Decl.Name.Name != "Error") {
			continue
		}
		n++
		recv := recvName(f)
		bad := token.NoPos
		ast.Inspect(f.Decl.Body, func(x ast.Node) bool {
			call, ok := x.(*ast.CallExpr)
			if !ok {
				return true
			}
			k := calleeKey(f.Callee(call))
			if !strings.HasPrefix(k, "fmt.") {
				return true
			}
			for _, a := range call.Args {
				if id, ok := ast.Unparen(a).(*ast.Ident); ok && id.Name == recv && recv != "" {
					bad = call.Pos()
				}
				if u, ok := ast.Unparen(a).(*ast.UnaryExpr); ok && (u.Op == token.AND || u.Op == token.MUL) {
					if id, ok := ast.Unparen(u.X).(*ast.Ident); ok && id.Name == recv && recv != "" {
						bad = call.Pos()
					}
				}
			}
			return true
		})
		key := f.Name + "|self-format"
		if bad.IsValid() {
			c.Fail(rule, key, bad, "%s passes its own receiver to fmt: formatting the value recurses into this method forever (stack overflow kills the process)", f.Name)
		} else {
			c.OK(rule, key, f.Decl.Pos(), 1, "formats fields only")
		}
	}
	if n == 0 {
		c.Note("%s: no String/Error methods in %v", rule, pkgs)
	}
}

// ruleCurOncePerNext: tokenScanner.Cur() has a side effect (it consumes the second character of !=, >=, <=).
func ruleCurOncePerNext(c *Ctx, rule string) {
	c.Rule(rule, "the token scanner's Cur() is not idempotent — for '!=', '>=' and '<=' it consumes the second character — so every loop driving the scanner calls Cur() exactly once per Next(): a second call would yield '=' and the stored operator would silently change")
	w := c.W
	n := 0
	for _, name := range w.SortedFuncNames() {
		f := w.Funcs[name]
		ast.Inspect(f.Decl.Body, func(x ast.Node) bool {
			fs, ok := x.(*ast.ForStmt)
			if !ok || fs.Cond == nil {
				return true
			}
			call, ok := ast.Unparen(fs.Cond).(*ast.CallExpr)
			if !ok || !f.CallIs(call, "sql.tokenScanner.Next") {
				return true
			}
			n++
			curs := f.Calls(fs.Body, true, "sql.tokenScanner.Cur")
			key := f.Name + "|cur-once-per-next"
			c.Check(len(curs) == 1, rule, key, fs.Pos(), "one Cur() per Next()", "the scanner loop calls Cur() "+itoa(len(curs))+" times per Next(): for two-character operators the second call returns '=' and 'a >= 5' is parsed as 'a = 5'")
			return true
		})
	}
	if n < 2 {
		c.Undecided(rule, "subjects", "only %d scanner loops found (engine.parseSQL and csvimport expected)", n)
	}
}

// ruleFilledByIndex: a slice made with len(xs) and filled by index in the loop over xs must be stored in every iteration.
func ruleFilledByIndex(c *Ctx, rule string, fnNames ...string) {
	c.Rule(rule, "a result slice that is pre-sized with len(xs) and filled by index inside the loop over xs receives an element in every iteration (no continue before the store): a skipped index stays nil and the consumer dereferences it")
	for _, fn := range fnNames {
		f := c.NeedFunc(rule, fn)
		if f == nil {
			continue
		}
		g := f.Graph()
		n := 0
		inspectBody(f.Decl.Body, func(x ast.Node) bool {
			rs, ok := x.(*ast.RangeStmt)
			if !ok || rs.Key == nil {
				return true
			}
			// out[key] = ... in the body, with out := make([]T, len(rs.X))
			var store *ast.AssignStmt
			inspectBody(rs.Body, func(y ast.Node) bool {
				if as, ok := y.(*ast.AssignStmt); ok && len(as.Lhs) == 1 {
					if ix, ok := ast.Unparen(as.Lhs[0]).(*ast.IndexExpr); ok && exprKey(ix.Index) == exprKey(rs.Key) {
						if id, ok := ast.Unparen(ix.X).(*ast.Ident); ok {
							if rhs, _, ok := f.definedBy(f.Decl.Body, f.ObjOf(id)); ok {
								if mk, ok := ast.Unparen(rhs).(*ast.CallExpr); ok && len(mk.Args) == 2 && exprKey(mk.Args[1]) == "len("+exprKey(rs.X)+")" {
									store = as
								}
							}
						}
					}
				}
				return true
			})
			if store == nil {
				return true
			}
			n++
			key := fn + "|filled-by-index#" + itoa(n)
			// every path from the loop body's entry to the back edge passes the store
			var bodyBlk *cfg.Block
			for _, b := range g.c.Blocks {
				if b.Kind == cfg.KindRangeBody && b.Stmt == ast.Stmt(rs) {
					bodyBlk = b
				}
			}
			if bodyBlk == nil {
				c.Undecided(rule, key, "loop body not found")
				return true
			}
			skipped := false
			start := Loc{bodyBlk, -1}
			g.Forward(&start, func(b *cfg.Block, si int) bool {
				if b.Succs[si].Kind == cfg.KindRangeLoop && b.Succs[si].Stmt == ast.Stmt(rs) {
					skipped = true
					return false
				}
				return true
			}, func(nn ast.Node, at Loc) Verdict {
				if nn == ast.Node(store) {
					return Cut
				}
				if _, ok := nn.(*ast.ReturnStmt); ok {
					return Cut
				}
				return Go
			}, nil)
			c.Check(!skipped, rule, key, store.Pos(), "every iteration stores its element", "an iteration can be skipped before the element is stored: the pre-sized result keeps a nil entry, which the caller dereferences")
			return true
		})
		if n == 0 {
			c.Note("%s: %s has no filled-by-index loop", rule, fn)
		}
	}
}

// ruleRecoveryVisitsAll: InitStorage's loop over the databases never ends early with success.
func ruleRecoveryVisitsAll(c *Ctx, rule string) {
	c.Rule(rule, "recovery visits every database: inside InitStorage's loop over the database directories no path returns success (a directory without a data file is skipped, it does not end recovery for the databases listed after it); the per-database work (open, read log, replay) happens inside the loop")
	f := c.NeedFunc(rule, "storage.InitStorage")
	if f == nil {
		return
	}
	var loop *ast.RangeStmt
	inspectBody(f.Decl.Body, func(x ast.Node) bool {
		if rs, ok := x.(*ast.RangeStmt); ok && loop == nil {
			loop = rs
		}
		return true
	})
	key := f.Name + "|visits-every-database"
	if loop == nil {
		c.Fail(rule, key, f.Decl.Pos(), "InitStorage has no loop over the databases")
		return
	}
	g := f.Graph()
	bad := false
	inspectBody(loop.Body, func(x ast.Node) bool {
		if r, ok := x.(*ast.ReturnStmt); ok && g.ReturnMayBeNil(r) {
			bad = true
		}
		return true
	})
	replays := len(f.Calls(loop.Body, true, "storage.WALBatch.replay"))
	c.Check(!bad && replays == 1, rule, key, loop.Pos(), "no success return inside the loop; each database is replayed", "InitStorage can return success from inside its loop over the databases (or does not replay inside the loop): databases listed after a directory without a data file are never recovered and their acknowledged statements are lost")
}

// ruleErrorsNotDropped: errors of mkdb's own functions are returned or tested on the statement paths.
func ruleErrorsNotDropped(c *Ctx, rule string, fnNames ...string) {
	c.Rule(rule, "the error of a storage-layer call is never overwritten or dropped before it has been looked at: in the named functions every call to a mkdb function whose last result is an error is either returned directly or bound to a variable that is tested (or returned) on every path before it is reassigned")
	for _, fn := range fnNames {
		f := c.NeedFunc(rule, fn)
		if f == nil {
			continue
		}
		n := 0
		ast.Inspect(f.Decl.Body, func(x ast.Node) bool {
			if _, isDefer := x.(*ast.DeferStmt); isDefer {
				return false
			}
			call, ok := x.(*ast.CallExpr)
			if !ok {
				return true
			}
			callee := f.Callee(call)
			if callee == nil || callee.Pkg() == nil || pkgKey(callee.Pkg().Path()) == "" {
				return true
			}
			sig, _ := callee.Type().(*types.Signature)
			if sig == nil || sig.Results().Len() == 0 || !isErrorType(sig.Results().At(sig.Results().Len()-1).Type()) {
				return true
			}
			n++
			key := fn + "|error-of|" + calleeKey(callee) + "#" + itoa(n)
			body := f.EnclosingBody(call)
			if ok, how := f.errHandled(body, call); ok {
				c.OK(rule, key, call.Pos(), 1, "%s", how)
			} else {
				c.Fail(rule, key, call.Pos(), "the error of %s is lost (%s): a refused or failed operation is reported as success", exprKey(call.Fun), how)
			}
			return true
		})
		if n == 0 {
			c.Undecided(rule, fn+"|calls", "no error-returning mkdb call found")
		}
	}
}

func usesIn(f *Func, n ast.Node, obj types.Object) bool {
	hit := false
	ast.Inspect(n, func(z ast.Node) bool {
		if zi, ok := z.(*ast.Ident); ok && f.ObjOf(zi) == obj {
			hit = true
		}
		return !hit
	})
	return hit
}

// localHelperOf: the function named n of the vendored file is new, and every call of it comes from a documented
// local edit of that file or from another such new function (transitively): it is part of the local edits, the
// copied functions do not depend on it.
func localHelperOf(w *World, file, n string, allow map[string]string) bool {
	find := func(short string) *Func {
		for _, name := range w.SortedFuncNames() {
			f := w.Funcs[name]
			if strings.HasSuffix(name, "."+short) && w.Fset.Position(f.Decl.Pos()).Filename == file {
				return f
			}
		}
		return nil
	}
	start := find(n)
	if start == nil {
		return false
	}
	short := func(f *Func) string {
		name := f.Name
		if i := strings.Index(name, "."); i >= 0 {
			name = name[i+1:]
		}
		return name
	}
	seen := map[*Func]bool{}
	var ok func(f *Func) bool
	ok = func(f *Func) bool {
		if seen[f] {
			return true
		}
		seen[f] = true
		sites := w.CG().In[f]
		if len(sites) == 0 {
			return false
		}
		for _, cs := range sites {
			c := cs.Caller
			if w.Fset.Position(c.Decl.Pos()).Filename != file {
				return false
			}
			if _, allowed := allow[short(c)]; allowed {
				continue
			}
			if _, pinned := pinnedFuncs[c.Name]; pinned {
				return false // called from a copied function
			}
			if !ok(c) {
				return false
			}
		}
		return true
	}
	return ok(start)
}
