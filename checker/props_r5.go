package main

// Rules added after the fifth seeded-change campaign (performance, robustness and caching work).

import (
	"go/ast"
	"go/constant"
	"go/token"
	"go/types"
	"os"
	"path/filepath"
	"strings"

	"golang.org/x/tools/go/cfg"
)

// ---- the flush writes every dirty page ------------------------------------------------------------------------

func ruleFlushLoopComplete(c *Ctx, rule string) {
	c.Rule(rule, "one call of the flush writes EVERY dirty page: the loop that writes the pages is left only by the error return of a failed write — no break, no success return, no counter that bounds a pass — and it skips a page only on the test of its dirty flag (not because the page is empty, old or 'unchanged'): the callers (Close, CREATE TABLE, recovery) rely on the cache being clean and the header describing the file after one call")
	f := c.NeedFunc(rule, "storage.(*fileStore).flushPages")
	if f == nil {
		return
	}
	g := f.Graph()
	var loops []ast.Stmt
	inspectBody(f.Decl.Body, func(x ast.Node) bool {
		switch y := x.(type) {
		case *ast.RangeStmt:
			if len(f.Calls(y.Body, false, "storage.*.update")) > 0 || collectsDirty(f, y.Body) {
				loops = append(loops, y)
			}
		case *ast.ForStmt:
			if len(f.Calls(y.Body, false, "storage.*.update")) > 0 {
				loops = append(loops, y)
			}
		}
		return true
	})
	if len(loops) == 0 {
		c.Undecided(rule, f.Name+"|loop", "no page-writing loop found in the flush")
		return
	}
	for i, l := range loops {
		key := f.Name + "|loop#" + itoa(i+1) + "|complete"
		var body *ast.BlockStmt
		switch y := l.(type) {
		case *ast.RangeStmt:
			body = y.Body
		case *ast.ForStmt:
			body = y.Body
		}
		bad := ""
		var stack []ast.Node
		ast.Inspect(body, func(x ast.Node) bool {
			if x == nil {
				stack = stack[:len(stack)-1]
				return true
			}
			stack = append(stack, x)
			switch y := x.(type) {
			case *ast.FuncLit:
				return true
			case *ast.ReturnStmt:
				if g.ReturnMayBeNil(y) {
					bad = "a success return inside the loop (" + c.W.Pos(y.Pos()) + ")"
				}
			case *ast.BranchStmt:
				// belongs to this loop?
				inner := false
				for _, a := range stack[:len(stack)-1] {
					switch a.(type) {
					case *ast.ForStmt, *ast.RangeStmt, *ast.SwitchStmt, *ast.SelectStmt, *ast.TypeSwitchStmt:
						inner = true
					}
				}
				if inner && y.Label == nil {
					return true
				}
				if y.Tok == token.BREAK {
					bad = "a break (" + c.W.Pos(y.Pos()) + ")"
				}
				if y.Tok == token.CONTINUE {
					// the guard must be the dirty test
					var guard *ast.IfStmt
					for j := len(stack) - 2; j >= 0 && guard == nil; j-- {
						if ifs, ok := stack[j].(*ast.IfStmt); ok {
							guard = ifs
						}
					}
					okGuard := false
					if guard != nil {
						cond := ast.Unparen(guard.Cond)
						if u, ok := cond.(*ast.UnaryExpr); ok && u.Op == token.NOT {
							cond = ast.Unparen(u.X)
						}
						if call, ok := cond.(*ast.CallExpr); ok && f.CallIs(call, "storage.btreeNode.isDirty") {
							okGuard = true
						}
						if sel, ok := cond.(*ast.SelectorExpr); ok {
							if v := fieldVar(f, sel); v != nil && v.Name() == "dirty" {
								okGuard = true
							}
						}
						// a cache slot that holds no page at all has nothing to write: `if node == nil { continue }`
						if be, ok := cond.(*ast.BinaryExpr); ok && be.Op == token.EQL && isNilIdent(f, be.Y) {
							if t := f.TypeOf(be.X); t != nil && namedTypeIs(t, "storage", "btreeNode") {
								okGuard = true
							}
						}
					}
					if !okGuard {
						bad = "a skip that does not depend on the dirty flag (" + c.W.Pos(y.Pos()) + ")"
					}
				}
			}
			return true
		})
		// a loop condition or counter that bounds the pass
		if fs, ok := l.(*ast.ForStmt); ok && fs.Cond != nil {
			k := exprKey(fs.Cond)
			if !strings.Contains(k, "<len(") {
				bad = "a loop condition other than the end of the collection (" + k + ")"
			}
		}
		if bad != "" {
			c.Fail(rule, key, l.Pos(), "the flush loop has %s: a single flush no longer writes every dirty page, yet Close, CREATE TABLE and recovery save the header and go on as if it had", bad)
		} else {
			c.OK(rule, key, l.Pos(), 2, "left only through a failed write; skips only clean pages")
		}
	}
}

func collectsDirty(f *Func, body *ast.BlockStmt) bool {
	found := false
	ast.Inspect(body, func(x ast.Node) bool {
		if call, ok := x.(*ast.CallExpr); ok && f.CallIs(call, "storage.btreeNode.isDirty") {
			found = true
		}
		return true
	})
	return found
}

// ---- a length the writer can produce is never taken for a torn tail --------------------------------------------

func ruleLogLengthBound(c *Ctx, rule string) {
	c.Rule(rule, "the log reader accepts every record the writer can produce: if read compares a record's length prefix with a constant, that constant is at least the largest record — the fixed part of WALEntry.encode (recomputed from its wire grammar) plus maxValueSize; a tighter bound classifies valid records of the longest rows as a torn tail and TRUNCATES the log there, losing that statement and everything acknowledged after it")
	f := c.NeedFunc(rule, "storage.(*wal).read")
	enc := c.NeedFunc(rule, "storage.(*WALEntry).encode")
	if f == nil || enc == nil {
		return
	}
	items, probs := Grammar(enc, true, nil)
	maxVal, okV := storageConst(c.W, "maxValueSize")
	if len(probs) > 0 || !okV {
		c.Undecided(rule, f.Name+"|length-bound", "the record layout could not be extracted (%v)", probs)
		return
	}
	fixed, _ := fixedBytes(items)
	maxRecord := int64(fixed) + maxVal
	// the length variable: the operand of make([]byte, N) that receives the body
	lenNames := map[string]bool{}
	inspectBody(f.Decl.Body, func(x ast.Node) bool {
		if call, ok := x.(*ast.CallExpr); ok && len(call.Args) == 2 {
			if id, ok := call.Fun.(*ast.Ident); ok && id.Name == "make" {
				lenNames[exprKey(f.stripConv(call.Args[1]))] = true
			}
		}
		return true
	})
	n := 0
	ast.Inspect(f.Decl.Body, func(x ast.Node) bool {
		be, ok := x.(*ast.BinaryExpr)
		if !ok {
			return true
		}
		switch be.Op {
		case token.GTR, token.GEQ, token.LSS, token.LEQ:
		default:
			return true
		}
		var cv constant.Value
		var other ast.Expr
		op := be.Op
		if v := f.constOf(be.Y); v != nil {
			cv, other = v, be.X
		} else if v := f.constOf(be.X); v != nil {
			cv, other = v, be.Y
			op = mirrorOp(op)
		}
		if cv == nil || !lenNames[exprKey(f.stripConv(other))] {
			return true
		}
		k, exact := constant.Int64Val(constant.ToInt(cv))
		if !exact {
			return true
		}
		// rejecting side: len > K  or len >= K
		if op != token.GTR && op != token.GEQ {
			return true
		}
		n++
		key := f.Name + "|length-bound#" + itoa(n)
		limit := k
		if op == token.GEQ {
			limit = k - 1
		}
		if limit < maxRecord {
			c.Fail(rule, key, be.Pos(), "read treats a record longer than %d bytes as impossible, but WALEntry.encode produces up to %d (fixed part %d + maxValueSize %d): the records of the longest rows are cut off as a torn tail, together with everything logged after them", limit, maxRecord, fixed, maxVal)
		} else {
			c.OK(rule, key, be.Pos(), 1, "bound %d >= largest record %d", limit, maxRecord)
		}
		return true
	})
	if n == 0 {
		c.OK(rule, f.Name+"|length-bound|none", f.Decl.Pos(), 1, "read puts no upper bound on a record's length (largest record the writer produces: %d bytes)", maxRecord)
	}
}

// ---- every open of the log can append and truncate --------------------------------------------------------------

func ruleLogOpens(c *Ctx, rule string) {
	c.Rule(rule, "every place that opens a database's log opens it read-write and appending: recovery truncates a torn tail through the very descriptor it reads with, and the statements that follow append through it — a read-only (or non-appending) open on the recovery path makes start-up fail, or overwrite, exactly when a crash left a partial record")
	w := c.W
	n := 0
	rdwr, ok1 := int64(os.O_RDWR), true
	app, ok2 := int64(os.O_APPEND), true
	_ = ok1
	_ = ok2
	for _, name := range w.SortedFuncNames() {
		f := w.Funcs[name]
		if f.Pkg != w.Pkgs["storage"] {
			continue
		}
		for _, call := range f.Calls(f.Decl.Body, true, "os.OpenFile") {
			if len(call.Args) != 3 {
				continue
			}
			// is the path a log path? defined from walFilePath in this function
			isLog := false
			if id, ok := ast.Unparen(call.Args[0]).(*ast.Ident); ok {
				if rhs, _, ok := f.definedBy(f.Decl.Body, f.ObjOf(id)); ok {
					if pc, ok := ast.Unparen(rhs).(*ast.CallExpr); ok && f.CallIs(pc, "storage.walFilePath") {
						isLog = true
					}
				}
			}
			if !isLog {
				continue
			}
			n++
			key := f.Name + "|log-open#" + itoa(n)
			cv := f.constOf(call.Args[1])
			if cv == nil {
				c.Undecided(rule, key, "the flags of this open of the log are not constant")
				continue
			}
			flags, _ := constant.Int64Val(constant.ToInt(cv))
			switch {
			case flags&3 != rdwr:
				c.Fail(rule, key, call.Pos(), "%s opens the log without write access (%s): truncating a torn tail fails on this descriptor, so a database whose last record was cut by a crash cannot be started", f.Name, f.Src(call.Args[1]))
			case flags&app == 0:
				c.Fail(rule, key, call.Pos(), "%s opens the log without O_APPEND (%s)", f.Name, f.Src(call.Args[1]))
			default:
				c.OK(rule, key, call.Pos(), 1, "read-write, appending")
			}
		}
	}
	if n == 0 {
		c.Undecided(rule, "subjects", "no os.OpenFile of a path from walFilePath found")
	}
}

// ---- closures started in a loop do not share the loop variable ---------------------------------------------------

func goVersionBefore122(dir string) bool {
	data, err := os.ReadFile(filepath.Join(dir, "go.mod"))
	if err != nil {
		return true
	}
	for _, line := range strings.Split(string(data), "\n") {
		f := strings.Fields(line)
		if len(f) == 2 && f[0] == "go" {
			parts := strings.Split(f[1], ".")
			if len(parts) >= 2 && parts[0] == "1" {
				minor := 0
				for _, ch := range parts[1] {
					if ch < '0' || ch > '9' {
						break
					}
					minor = minor*10 + int(ch-'0')
				}
				return minor < 22
			}
		}
	}
	return true
}

func ruleNoLoopVarCapture(c *Ctx, rule string, pkgs ...string) {
	c.Rule(rule, "a goroutine or deferred call started inside a loop does not read the loop's variable through the closure: the module's go directive is below 1.22, so a range loop has ONE variable for all iterations — work started per database (or per row) with `go func(){ … db … }()` runs for whichever element the loop has reached, typically the last one for all of them")
	w := c.W
	if !goVersionBefore122(w.Dir) {
		c.OK(rule, "module|per-iteration-variables", token.NoPos, 1, "the module's go directive is 1.22 or later: loop variables are per iteration")
		return
	}
	n, bad := 0, 0
	for _, name := range w.SortedFuncNames() {
		f := w.Funcs[name]
		okPkg := false
		for _, p := range pkgs {
			if f.Pkg == w.Pkgs[p] {
				okPkg = true
			}
		}
		if !okPkg {
			continue
		}
		idx := 0
		var visit func(nd ast.Node, loopVars map[types.Object]bool)
		visit = func(nd ast.Node, loopVars map[types.Object]bool) {
			ast.Inspect(nd, func(x ast.Node) bool {
				if x == nil || x == nd {
					return true
				}
				switch y := x.(type) {
				case *ast.RangeStmt:
					lv := map[types.Object]bool{}
					for k := range loopVars {
						lv[k] = true
					}
					if y.Tok == token.DEFINE {
						for _, e := range []ast.Expr{y.Key, y.Value} {
							if id, ok := e.(*ast.Ident); ok && id.Name != "_" {
								lv[f.ObjOf(id)] = true
							}
						}
					}
					visit(y.Body, lv)
					return false
				case *ast.ForStmt:
					lv := map[types.Object]bool{}
					for k := range loopVars {
						lv[k] = true
					}
					if as, ok := y.Init.(*ast.AssignStmt); ok && as.Tok == token.DEFINE {
						for _, e := range as.Lhs {
							if id, ok := e.(*ast.Ident); ok {
								lv[f.ObjOf(id)] = true
							}
						}
					}
					visit(y.Body, lv)
					return false
				case *ast.GoStmt, *ast.DeferStmt:
					var call *ast.CallExpr
					if g, ok := y.(*ast.GoStmt); ok {
						call = g.Call
					} else {
						call = y.(*ast.DeferStmt).Call
					}
					lit, ok := ast.Unparen(call.Fun).(*ast.FuncLit)
					if !ok || len(loopVars) == 0 {
						return true
					}
					n++
					// function values defined in the loop that themselves read the loop variable
					captors := map[types.Object]string{}
					ast.Inspect(nd, func(z ast.Node) bool {
						as, ok := z.(*ast.AssignStmt)
						if !ok || len(as.Lhs) != len(as.Rhs) {
							return true
						}
						for i, r := range as.Rhs {
							fl, ok := ast.Unparen(r).(*ast.FuncLit)
							if !ok {
								continue
							}
							id, ok := as.Lhs[i].(*ast.Ident)
							if !ok {
								continue
							}
							ast.Inspect(fl.Body, func(zz ast.Node) bool {
								if zi, ok := zz.(*ast.Ident); ok && loopVars[f.ObjOf(zi)] {
									captors[f.ObjOf(id)] = zi.Name
								}
								return true
							})
						}
						return true
					})
					var captured []string
					ast.Inspect(lit.Body, func(z ast.Node) bool {
						if id, ok := z.(*ast.Ident); ok {
							if loopVars[f.ObjOf(id)] {
								captured = append(captured, id.Name)
							} else if lv, ok := captors[f.ObjOf(id)]; ok {
								captured = append(captured, lv+" (through "+id.Name+")")
							}
						}
						return true
					})
					if len(captured) > 0 {
						idx++
						bad++
						c.FailConfined(rule, f.Name+"|loop-var-capture#"+itoa(idx), y.Pos(), "%s starts a closure inside a loop that reads the loop variable %s: with go < 1.22 all these closures share one variable — the work meant for each element is done for the last one only", f.Name, captured[0])
					}
					return true
				}
				return true
			})
		}
		visit(f.Decl.Body, map[types.Object]bool{})
	}
	if bad == 0 {
		c.OK(rule, "closures|no-loop-var-capture", token.NoPos, n+1, "%d go/defer closures inside loops examined, none reads a loop variable", n)
	}
}

// ---- the log only ever loses a torn tail --------------------------------------------------------------------------

func ruleLogNeverShrinks(c *Ctx, rule string) {
	c.Rule(rule, "the log is shortened in exactly one place and for one reason: Truncate is called only by the log reader, with the length of the complete records it has just read — never with a constant, never on shutdown or at start-up \"because the pages are flushed anyway\": the flush that would make the log redundant can itself be interrupted")
	w := c.W
	n := 0
	for _, name := range w.SortedFuncNames() {
		f := w.Funcs[name]
		if f.Pkg != w.Pkgs["storage"] && f.Pkg != w.Pkgs["engine"] {
			continue
		}
		idx := 0
		ast.Inspect(f.Decl.Body, func(x ast.Node) bool {
			call, ok := x.(*ast.CallExpr)
			if !ok {
				return true
			}
			sel, ok := ast.Unparen(call.Fun).(*ast.SelectorExpr)
			if !ok || sel.Sel.Name != "Truncate" || len(call.Args) != 1 {
				return true
			}
			n++
			idx++
			key := f.Name + "|truncate#" + itoa(idx)
			switch {
			case f.Name != "storage.(*wal).read":
				c.Fail(rule, key, call.Pos(), "%s truncates a file: outside the log reader's torn-tail repair nothing may shorten the log (or the data file) — records of statements whose pages have not reached the data file would be lost", f.Name)
			case f.constOf(call.Args[0]) != nil:
				c.Fail(rule, key, call.Pos(), "the log reader truncates to the constant %s instead of the length of the complete records", f.Src(call.Args[0]))
			default:
				c.OK(rule, key, call.Pos(), 1, "torn-tail repair in the log reader")
			}
			return true
		})
	}
	if n == 0 {
		c.Undecided(rule, "subjects", "no Truncate call found (the torn-tail repair is expected in wal.read)")
	}
}

// ---- every database is replayed unconditionally ------------------------------------------------------------------

func ruleReplayUnconditional(c *Ctx, rule string) {
	c.Rule(rule, "recovery replays the log of every database that has a data file: on the path from the existence test of the data file to the replay there is no other way to skip the database successfully — not a comparison of modification times, sizes or a 'clean shutdown' marker: a flush that was interrupted leaves a data file that looks newer than the log and still lacks pages")
	f := c.NeedFunc(rule, "storage.InitStorage")
	if f == nil {
		return
	}
	for _, rp := range f.Calls(f.Decl.Body, true, "storage.WALBatch.replay") {
		body := f.EnclosingBody(rp)
		g := body.Graph()
		n := 0
		for _, r := range g.Returns() {
			if r.Pos() > rp.Pos() || !g.ReturnMayBeNil(r) {
				continue
			}
			n++
			key := f.Name + "|skip-before-replay#" + itoa(n)
			loc, ok := g.Locate(r)
			if !ok {
				continue
			}
			// allowed: the return taken because the data file does not exist
			okSkip := false
			for _, b := range g.c.Blocks {
				if !g.Reachable(b) || len(b.Succs) != 2 {
					continue
				}
				for si := 0; si < 2; si++ {
					info, ok := g.EdgeInfo(b, si)
					if !ok || info.Case {
						continue
					}
					cond, val := ast.Unparen(info.Cond), info.Val
					if u, ok := cond.(*ast.UnaryExpr); ok && u.Op == token.NOT {
						cond, val = ast.Unparen(u.X), !val
					}
					id, ok := cond.(*ast.Ident)
					if !ok || val {
						continue
					}
					// `exists` result of dbFilePath
					isExists := false
					for _, pc := range f.Calls(body.Node, false, "storage.dbFilePath") {
						if f.resultVar(body.Node, pc, 1) == f.ObjOf(id) {
							isExists = true
						}
					}
					if isExists && g.BlockDominates(b.Succs[si], loc.B) && onlyPred(g, b.Succs[si], b) {
						okSkip = true
					}
				}
			}
			if okSkip {
				c.OK(rule, key, r.Pos(), 1, "skipped because the directory has no data file")
			} else {
				c.Fail(rule, key, r.Pos(), "InitStorage can skip a database that has a data file without replaying its log (return at %s): statements that were acknowledged but whose pages a crash kept from the data file are lost", c.W.Pos(r.Pos()))
			}
		}
	}
}

// ---- errors are not turned into answers ----------------------------------------------------------------------------

func ruleNoErrorSwallow(c *Ctx, rule string, pkgs ...string) {
	c.Rule(rule, "an error is not turned into an answer: no function of the executor returns a nil error on the edge where an error it received is non-nil (`if err != nil { return false, nil }`), and none binds the error result of a function of this repository to the blank identifier — a join condition that cannot be evaluated (ambiguous or unknown column, incomparable types) would silently become 'no match', a comparison the helper has no arm for would become 'equal', and the statement would return a wrong result instead of the error")
	w := c.W
	n, bad := 0, 0
	for _, name := range w.SortedFuncNames() {
		f := w.Funcs[name]
		okPkg := false
		for _, p := range pkgs {
			if f.Pkg == w.Pkgs[p] {
				okPkg = true
			}
		}
		if !okPkg {
			continue
		}
		sig := f.Obj.Type().(*types.Signature)
		if sig.Results().Len() == 0 || !isErrorType(sig.Results().At(sig.Results().Len()-1).Type()) {
			continue
		}
		idx := 0
		check := func(body *ast.BlockStmt, g *Graph) {
			for _, r := range g.Returns() {
				if len(r.Results) == 0 || !isNilIdent(f, ast.Unparen(r.Results[len(r.Results)-1])) {
					continue
				}
				n++
				loc, ok := g.Locate(r)
				if !ok {
					continue
				}
				// dominated by an edge on which some error variable is non-nil, with the return directly in that branch
				for _, b := range g.c.Blocks {
					if !g.Reachable(b) || len(b.Succs) != 2 {
						continue
					}
					for si := 0; si < 2; si++ {
						info, ok := g.EdgeInfo(b, si)
						if !ok || info.Case {
							continue
						}
						objs := f.nonNilOn(info.Cond, info.Val)
						if len(objs) == 0 || b.Succs[si] != loc.B || !onlyPred(g, b.Succs[si], b) {
							continue
						}
						// sentinel comparisons (`err == io.EOF`) are decisions, not swallowing: nonNilOn only reports != nil tests
						idx++
						bad++
						c.Fail(rule, f.Name+"|swallows#"+itoa(idx), r.Pos(), "%s returns a nil error where %s is known to be non-nil: the failure is reported to the caller as an ordinary result", f.Name, objs[0].Name())
					}
				}
			}
		}
		check(f.Decl.Body, f.Graph())
		for _, lit := range f.FuncLits() {
			check(lit.Body, f.LitGraph(lit))
		}
		// the same thing without a return: on the non-nil edge of an error test the branch never looks at the
		// error again and sets an error variable to nil (what an inlined `return x, nil` becomes)
		inspectBody(f.Decl.Body, func(x ast.Node) bool {
			ifs, ok := x.(*ast.IfStmt)
			if !ok {
				return true
			}
			objs := f.nonNilOn(ifs.Cond, true)
			if len(objs) == 0 {
				return true
			}
			n++
			mentions, setsNil := false, false
			ast.Inspect(ifs.Body, func(y ast.Node) bool {
				if id, ok := y.(*ast.Ident); ok && f.ObjOf(id) == objs[0] {
					// a plain store `err = nil` is not a look at the error
					if as, ok := parentAssign(ifs.Body, id); ok && isLHS(as, id) {
						return true
					}
					mentions = true
				}
				if as, ok := y.(*ast.AssignStmt); ok && len(as.Lhs) == len(as.Rhs) {
					for i, l := range as.Lhs {
						if lid, ok := ast.Unparen(l).(*ast.Ident); ok && isErrorType(f.TypeOf(lid)) && isNilIdent(f, ast.Unparen(as.Rhs[i])) {
							setsNil = true
						}
					}
				}
				return true
			})
			if !mentions && setsNil {
				idx++
				bad++
				c.Fail(rule, f.Name+"|swallows#"+itoa(idx), ifs.Pos(), "%s clears the error on the branch where %s is non-nil without ever looking at it: the failure is reported to the caller as an ordinary result", f.Name, objs[0].Name())
			}
			return true
		})
	}
	// the same thing at the call: the error result of a function of this repository is bound to the blank
	// identifier (`order, _ = compareValues(a, b)`) — in any function of the packages, closures included
	for _, name := range w.SortedFuncNames() {
		f := w.Funcs[name]
		okPkg := false
		for _, p := range pkgs {
			if f.Pkg == w.Pkgs[p] {
				okPkg = true
			}
		}
		if !okPkg {
			continue
		}
		k := 0
		ast.Inspect(f.Decl.Body, func(x ast.Node) bool {
			as, ok := x.(*ast.AssignStmt)
			if !ok || len(as.Rhs) != 1 {
				return true
			}
			call, ok := ast.Unparen(as.Rhs[0]).(*ast.CallExpr)
			if !ok {
				return true
			}
			fn := f.Callee(call)
			if fn == nil || fn.Pkg() == nil || pkgKey(fn.Pkg().Path()) == "" {
				return true
			}
			sig, _ := fn.Type().(*types.Signature)
			if sig == nil || sig.Results().Len() != len(as.Lhs) {
				return true
			}
			n++
			// `_ = x.Close()` spells out what the bare call statement `x.Close()` did already: a close has no result
			// that could be mistaken for an answer
			if sig.Results().Len() == 1 && strings.HasPrefix(strings.ToLower(fn.Name()), "close") {
				return true
			}
			for i, l := range as.Lhs {
				if id, ok := l.(*ast.Ident); ok && id.Name == "_" && isErrorType(sig.Results().At(i).Type()) {
					k++
					bad++
					c.FailConfined(rule, f.Name+"|discards-error#"+itoa(k)+"|"+calleeKey(fn), as.Pos(), "%s discards the error of %s with the blank identifier: when the callee cannot do what it was asked (a value of a type it has no arm for, a column it cannot resolve) the zero result is used as if it were an answer", f.Name, calleeKey(fn))
				}
			}
			return true
		})
	}
	if bad == 0 {
		c.OK(rule, "returns|no-swallow", token.NoPos, n, "%d nil-error returns, error branches and calls examined, none discards an error it was given", n)
	}
}

// ---- LIMIT and OFFSET are applied once, at the end -----------------------------------------------------------------

func ruleLimitOnlyAtTheEnd(c *Ctx, rule string) {
	c.Rule(rule, "rows are cut to LIMIT/OFFSET once, after everything that looks at all rows: every call of limit/offset in EvaluateSelect is dominated by the calls of the aggregation and the sort — a LIMIT pushed in front of them makes COUNT/AVG see only the first n input rows (an aggregate without GROUP BY is still an aggregate) and ORDER BY sort a prefix")
	f := c.NeedFunc(rule, "engine.EvaluateSelect")
	if f == nil {
		return
	}
	g := f.Graph()
	stages := []string{"engine.aggregateRows", "engine.sortColumns"}
	for _, s := range stages {
		if len(f.Calls(f.Decl.Body, false, s)) == 0 {
			c.Undecided(rule, f.Name+"|stages", "stage %s not found", s)
			return
		}
	}
	n := 0
	for _, s := range []string{"engine.limit", "engine.offset"} {
		for _, call := range f.Calls(f.Decl.Body, false, s) {
			n++
			key := f.Name + "|" + s[7:] + "-after-aggregation#" + itoa(n)
			cl, ok := g.Locate(call)
			if !ok {
				c.Undecided(rule, key, "call not located")
				continue
			}
			// a path property: no path from the function's entry reaches the cut without having passed a call of
			// each stage (however many copies of the pipeline's tail the function has)
			late := true
			for _, st := range stages {
				skipped, _ := g.Forward(nil, nil, func(nn ast.Node, at Loc) Verdict {
					if at == cl {
						return Hit
					}
					if g.containsCall(nn, st) != nil {
						return Cut
					}
					return Go
				}, nil)
				if skipped {
					late = false
				}
			}
			if late {
				c.OK(rule, key, call.Pos(), 1, "applied after aggregation and sorting")
			} else {
				c.Fail(rule, key, call.Pos(), "EvaluateSelect cuts the rows with %s before the aggregation/sort stages have seen them: count(*) … LIMIT 1 counts one row", s[7:])
			}
		}
	}
	if n == 0 {
		c.Undecided(rule, f.Name+"|limit", "no limit/offset call found")
	}
}

// ---- the scanner loop ends only at the end of the input --------------------------------------------------------------

func ruleNextStopsAtEOF(c *Ctx, rule string) {
	c.Rule(rule, "the token loop ends only at the end of the text: tokenScanner.Next reports false only for the EOF token — its callers are `for ts.Next() { … }` loops that know no error channel, so any other reason to stop (a latched scan error) silently drops the rest of the statement and the prefix is parsed as if it were the whole")
	f := c.NeedFunc(rule, "sql.(*tokenScanner).Next")
	if f == nil {
		return
	}
	g := f.Graph()
	n := 0
	for _, r := range g.Returns() {
		if len(r.Results) != 1 {
			continue
		}
		n++
		key := f.Name + "|return#" + itoa(n)
		e := ast.Unparen(r.Results[0])
		if be, ok := e.(*ast.BinaryExpr); ok && be.Op == token.NEQ {
			if cst := f.namedConst(be.Y); cst != nil && cst.Name() == "EOF" {
				c.OK(rule, key, r.Pos(), 1, "false only for EOF")
				continue
			}
			if cst := f.namedConst(be.X); cst != nil && cst.Name() == "EOF" {
				c.OK(rule, key, r.Pos(), 1, "false only for EOF")
				continue
			}
		}
		if cv := f.constOf(e); cv != nil && cv.String() == "true" {
			c.OK(rule, key, r.Pos(), 1, "true")
			continue
		}
		c.Fail(rule, key, r.Pos(), "Next can report the end of the tokens (%s) for a reason other than the EOF token: the loops that drive it stop early and the statement is silently cut short", f.Src(e))
	}
	if n == 0 {
		c.Undecided(rule, f.Name+"|returns", "no return found")
	}
}

// ---- the cache has the capacity it was given ---------------------------------------------------------------------------

func ruleCapacityAsGiven(c *Ctx, rule string) {
	c.Rule(rule, "the cache holds as many pages as it was told to: NewLRU stores its capacity parameter unchanged (no silent minimum, rounding or default): with a capacity other than the one asked for, 'never more entries than its capacity' is false and the refusal behaviour differs")
	f := c.NeedFunc(rule, "storage.NewLRU")
	if f == nil {
		return
	}
	param := paramIdent(f, 0)
	key := f.Name + "|capacity-as-given"
	if param == nil {
		c.Undecided(rule, key, "NewLRU has no parameter")
		return
	}
	pobj := f.ObjOf(param)
	assigned := len(f.assignsTo(f.Decl.Body, pobj)) > 0
	stores := false
	for _, lit := range f.compositeLits("storage", "LRUCache") {
		if v := kvField(lit, "maxNodes"); v != nil {
			if id, ok := ast.Unparen(v).(*ast.Ident); ok && f.ObjOf(id) == pobj {
				stores = true
			}
		}
	}
	switch {
	case assigned:
		c.Fail(rule, key, f.Decl.Pos(), "NewLRU changes the capacity it was given before storing it: a cache asked to hold n pages holds a different number")
	case !stores:
		c.Fail(rule, key, f.Decl.Pos(), "NewLRU does not store its capacity parameter in maxNodes")
	default:
		c.OK(rule, key, f.Decl.Pos(), 1, "maxNodes = the parameter")
	}
}

// ---- a page object is used before anything else is fetched ---------------------------------------------------------------

func rulePageObjectFresh(c *Ctx, rule string) {
	c.Rule(rule, "a page object handed to a callback is changed before anything else is fetched: in the callbacks that receive a leaf cell (and, through cell.pg, its page) from a scan or lookup, no call that can reach fileStore.fetch/append lies between the callback's entry and the mutation of that page (updateCell, the deleted flag, markDirty) — a fetch can evict the still-clean page, after which the callback changes an orphan that is never written back (with a small cache the UPDATE is acknowledged and lost)")
	w := c.W
	cg := w.CG()
	fetches := func(t *Func) bool {
		for fn := range cg.Reach(t) {
			if fn.Name == "storage.(*fileStore).fetch" || fn.Name == "storage.(*fileStore).append" {
				return true
			}
		}
		return false
	}
	n := 0
	for _, name := range []string{"storage.(*RelationService).Update", "storage.(*RelationService).MarkDeleted", "storage.(*RelationService).updatePageTable"} {
		f := w.F(name)
		if f == nil {
			continue
		}
		for li, lit := range f.FuncLits() {
			// callbacks taking a *leafCell
			if lit.Type.Params == nil || len(lit.Type.Params.List) != 1 || !strings.HasSuffix(typeStr(f.TypeOf(lit.Type.Params.List[0].Type)), "leafCell") {
				continue
			}
			g := f.LitGraph(lit)
			var muts []ast.Node
			ast.Inspect(lit.Body, func(x ast.Node) bool {
				if call, ok := x.(*ast.CallExpr); ok && f.CallIs(call, "storage.btreeNode.updateCell", "storage.btreeNode.markDirty") {
					muts = append(muts, call)
				}
				return true
			})
			if len(muts) == 0 {
				continue
			}
			n++
			key := f.Name + "$" + itoa(li+1) + "|page-fresh"
			bad := ""
			for _, cs := range cg.Sites[f] {
				if cs.Call.Pos() < lit.Body.Pos() || cs.Call.End() > lit.Body.End() {
					continue
				}
				if cs.Call.Pos() > muts[0].Pos() {
					continue
				}
				for _, t := range cs.Targets {
					if fetches(t) {
						bad = calleeKey(cs.Callee)
					}
				}
			}
			_ = g
			if bad != "" {
				c.Fail(rule, key, lit.Pos(), "the callback calls %s, which can fetch pages, before it changes the page it was handed: that page can be evicted in between and the change lands in an object the cache no longer holds", bad)
			} else {
				c.OK(rule, key, lit.Pos(), 1, "nothing is fetched between the callback's entry and the change of its page")
			}
		}
	}
	if n == 0 {
		c.Undecided(rule, "subjects", "no callback that mutates the page of the cell it receives was found")
	}
}

// ---- a converted record contains only its own fields ------------------------------------------------------------------------

func ruleRowFromRecordOnly(c *Ctx, rule string) {
	c.Robust(rule)
	c.Rule(rule, "a converted record contains only values derived from its own fields: every value csvToSql stores into the row it returns is nil, a constant, or computed from the record parameter — not from state kept across calls (a memo of the previous record's conversion is not invalidated by a failed conversion and hands an old value to a bad field)")
	f := c.NeedFunc(rule, "csvimport.csvToSql")
	if f == nil {
		return
	}
	info := f.Pkg.TypesInfo
	// the record parameter: the []string one
	var rec types.Object
	for i := 0; ; i++ {
		pi := paramIdent(f, i)
		if pi == nil {
			break
		}
		if typeStr(f.ObjOf(pi).Type()) == "[]string" {
			rec = f.ObjOf(pi)
		}
	}
	var out types.Object
	inspectBody(f.Decl.Body, func(x ast.Node) bool {
		if as, ok := x.(*ast.AssignStmt); ok && as.Tok == token.DEFINE && len(as.Rhs) == 1 && len(as.Lhs) == 1 {
			if mk, ok := as.Rhs[0].(*ast.CallExpr); ok {
				if id, ok := mk.Fun.(*ast.Ident); ok && id.Name == "make" && typeStr(f.TypeOf(as.Lhs[0])) == "[]interface{}" || ok && id.Name == "make" && typeStr(f.TypeOf(as.Lhs[0])) == "[]any" {
					out = f.ObjOf(as.Lhs[0].(*ast.Ident))
				}
			}
		}
		return true
	})
	if rec == nil || out == nil {
		c.Undecided(rule, f.Name+"|roles", "record parameter or result row not identified")
		return
	}
	// derived: locals computed (transitively) from the record
	derived := map[types.Object]bool{rec: true}
	for changed := true; changed; {
		changed = false
		ast.Inspect(f.Decl.Body, func(x ast.Node) bool {
			as, ok := x.(*ast.AssignStmt)
			if !ok {
				return true
			}
			uses := false
			for _, r := range as.Rhs {
				ast.Inspect(r, func(y ast.Node) bool {
					if id, ok := y.(*ast.Ident); ok && derived[info.ObjectOf(id)] {
						uses = true
					}
					return true
				})
			}
			if !uses {
				// control dependence: a value chosen by a test of something derived from the record
				// (`switch strings.ToLower(cell) { case "t": v = true … }`) is derived from it too
				ast.Inspect(f.Decl.Body, func(y ast.Node) bool {
					var cond ast.Node
					var scope ast.Node
					switch z := y.(type) {
					case *ast.IfStmt:
						cond, scope = z.Cond, z
					case *ast.SwitchStmt:
						if z.Tag != nil {
							cond, scope = z.Tag, z
						}
					}
					if cond == nil || !(scope.Pos() <= as.Pos() && as.End() <= scope.End()) || (cond.Pos() <= as.Pos() && as.End() <= cond.End()) {
						return true
					}
					ast.Inspect(cond, func(q ast.Node) bool {
						if id, ok := q.(*ast.Ident); ok && derived[info.ObjectOf(id)] {
							uses = true
						}
						return true
					})
					return true
				})
			}
			if !uses {
				return true
			}
			for _, l := range as.Lhs {
				if id, ok := ast.Unparen(l).(*ast.Ident); ok {
					if o := info.ObjectOf(id); o != nil && !derived[o] && o != out {
						if v, ok := o.(*types.Var); ok && !v.IsField() && v.Parent() != v.Pkg().Scope() && !isErrorType(v.Type()) {
							derived[o] = true
							changed = true
						}
					}
				}
			}
			return true
		})
	}
	n := 0
	inspectBody(f.Decl.Body, func(x ast.Node) bool {
		as, ok := x.(*ast.AssignStmt)
		if !ok || len(as.Lhs) != 1 || len(as.Rhs) != 1 {
			return true
		}
		ix, ok := ast.Unparen(as.Lhs[0]).(*ast.IndexExpr)
		if !ok {
			return true
		}
		if id, ok := ast.Unparen(ix.X).(*ast.Ident); !ok || info.ObjectOf(id) != out {
			return true
		}
		n++
		key := f.Name + "|value#" + itoa(n)
		rhs := as.Rhs[0]
		if isNilIdent(f, ast.Unparen(rhs)) || f.constOf(rhs) != nil {
			c.OK(rule, key, as.Pos(), 1, "constant")
			return true
		}
		foreign, fromRecord := "", false
		ast.Inspect(rhs, func(y ast.Node) bool {
			if id, ok := y.(*ast.Ident); ok {
				if v, ok := info.ObjectOf(id).(*types.Var); ok && !v.IsField() {
					if derived[v] {
						fromRecord = true
					} else if v.Parent() != v.Pkg().Scope() && foreign == "" {
						foreign = id.Name
					}
				}
			}
			return true
		})
		if fromRecord {
			foreign = "" // the value is computed from the record (indexes and configuration may take part)
		}
		if foreign != "" {
			c.Fail(rule, key, as.Pos(), "csvToSql stores a value that comes from %s, not from the record being converted: what is imported for one record depends on other records", foreign)
		} else {
			c.OK(rule, key, as.Pos(), 1, "derived from the record")
		}
		return true
	})
	if n == 0 {
		c.Undecided(rule, f.Name+"|stores", "no store into the result row found")
	}
}

var _ = cfg.KindBody

func parentAssign(root ast.Node, id *ast.Ident) (*ast.AssignStmt, bool) {
	var res *ast.AssignStmt
	ast.Inspect(root, func(x ast.Node) bool {
		if as, ok := x.(*ast.AssignStmt); ok {
			for _, l := range as.Lhs {
				if l == ast.Expr(id) {
					res = as
				}
			}
		}
		return true
	})
	return res, res != nil
}

func isLHS(as *ast.AssignStmt, id *ast.Ident) bool {
	for _, l := range as.Lhs {
		if l == ast.Expr(id) {
			return true
		}
	}
	return false
}

// ---- a Read whose count is thrown away is only exact on *bytes.Buffer ----------------------------------------------------

// ruleRawReadOnBuffer: the decoders fill a destination with `stream.Read(dst)` and throw the count away. That is exact
// only for *bytes.Buffer holding the whole record: it never blocks, and for an empty destination it returns (0, nil)
// even at the end of the input. *bytes.Reader (and io.Reader in general) answer io.EOF there, or read short.
func ruleRawReadOnBuffer(c *Ctx, rule string, fnames ...string) {
	c.Rule(rule, "a decoder that fills a destination with stream.Read(dst) and ignores the count reads from a *bytes.Buffer: the stream's static type is *bytes.Buffer, or — where the decoder takes an interface — every value that reaches that parameter is one. (*bytes.Reader returns io.EOF for an empty destination at the end of the input, so an empty string stored last cannot be read back; a general io.Reader may also read short)")
	c.Robust(rule)
	w := c.W
	cg := w.CG()
	isBuffer := func(t types.Type) bool {
		s := types.TypeString(t, nil)
		return s == "*bytes.Buffer" || s == "bytes.Buffer"
	}
	// flows reports the first non-buffer value that reaches parameter index pi of f ("" if all are buffers; "?" if unknown)
	var flows func(f *Func, pi int, seen map[string]bool) (string, token.Pos)
	flows = func(f *Func, pi int, seen map[string]bool) (string, token.Pos) {
		k := f.Name + "#" + itoa(pi)
		if seen[k] {
			return "", token.NoPos
		}
		seen[k] = true
		in := cg.In[f]
		if len(in) == 0 {
			return "?", f.Decl.Pos()
		}
		for _, cs := range in {
			if pi >= len(cs.Call.Args) {
				return "?", cs.Call.Pos()
			}
			arg := ast.Unparen(cs.Call.Args[pi])
			t := cs.Caller.Pkg.TypesInfo.TypeOf(arg)
			if t == nil {
				return "?", arg.Pos()
			}
			if isBuffer(t) {
				continue
			}
			if _, isIface := t.Underlying().(*types.Interface); isIface {
				if id, ok := arg.(*ast.Ident); ok {
					if j := paramIndexOf(cs.Caller, cs.Caller.ObjOf(id)); j >= 0 {
						if what, pos := flows(cs.Caller, j, seen); what != "" {
							return what, pos
						}
						continue
					}
				}
				return "?", arg.Pos()
			}
			return types.TypeString(t, nil), arg.Pos()
		}
		return "", token.NoPos
	}
	total := 0
	for _, name := range fnames {
		f := c.NeedFunc(rule, name)
		if f == nil {
			continue
		}
		n := 0
		inspectBody(f.Decl.Body, func(x ast.Node) bool {
			call, ok := x.(*ast.CallExpr)
			if !ok {
				return true
			}
			sel, ok := ast.Unparen(call.Fun).(*ast.SelectorExpr)
			if !ok || sel.Sel.Name != "Read" || len(call.Args) != 1 {
				return true
			}
			fn, _ := f.Pkg.TypesInfo.Uses[sel.Sel].(*types.Func)
			if fn == nil {
				return true
			}
			sig := fn.Type().(*types.Signature)
			if sig.Recv() == nil || sig.Results().Len() != 2 || types.TypeString(sig.Params().At(0).Type(), nil) != "[]byte" {
				return true
			}
			// is the count used?
			if as, ok := parentStmtOf(f.Decl.Body, call).(*ast.AssignStmt); ok && len(as.Lhs) == 2 {
				if id, ok := as.Lhs[0].(*ast.Ident); !ok || id.Name != "_" {
					return true // the count is looked at: a different discipline (not this rule's)
				}
			}
			n++
			total++
			key := f.Name + "|raw-read#" + itoa(n)
			rt := f.Pkg.TypesInfo.TypeOf(sel.X)
			switch {
			case rt == nil:
				c.Undecided(rule, key, "the type of the stream at %s is unknown", w.Pos(call.Pos()))
			case isBuffer(rt):
				c.OK(rule, key, call.Pos(), 1, "Read on %s", types.TypeString(rt, nil))
			default:
				if _, isIface := rt.Underlying().(*types.Interface); isIface {
					if id, ok := ast.Unparen(sel.X).(*ast.Ident); ok {
						if j := paramIndexOf(f, f.ObjOf(id)); j >= 0 {
							what, pos := flows(f, j, map[string]bool{})
							switch what {
							case "":
								c.OK(rule, key, call.Pos(), 1+len(cg.In[f]), "Read on an interface; every value that reaches it is a *bytes.Buffer")
							case "?":
								c.Undecided(rule, key, "the stream read at %s is an interface and a value reaching it (%s) could not be typed", w.Pos(call.Pos()), w.Pos(pos))
							default:
								c.Fail(rule, key, call.Pos(), "%s fills its destination with Read and ignores the count, and a %s reaches it (%s): for an empty destination at the end of the input that reader answers io.EOF where *bytes.Buffer answers (0, nil), so a record whose last field is empty (an empty string, a 0-byte value in the last cell of a page) can be written but not read back", f.Name, what, w.Pos(pos))
							}
							return true
						}
					}
					c.Undecided(rule, key, "the stream read at %s is an interface that is not a parameter", w.Pos(call.Pos()))
					return true
				}
				c.Fail(rule, key, call.Pos(), "%s fills its destination with (%s).Read and ignores the count: for an empty destination at the end of the input that reader answers io.EOF where *bytes.Buffer answers (0, nil), so a record whose last field is empty can be written but not read back", f.Name, types.TypeString(rt, nil))
			}
			return true
		})
	}
	if total == 0 {
		c.OK(rule, "raw-reads|none", token.NoPos, len(fnames), "no count-discarding Read in the decoders examined")
	}
}

func paramIndexOf(f *Func, obj types.Object) int {
	if obj == nil || f.Decl.Type.Params == nil {
		return -1
	}
	i := 0
	for _, fl := range f.Decl.Type.Params.List {
		if len(fl.Names) == 0 {
			i++
			continue
		}
		for _, n := range fl.Names {
			if f.ObjOf(n) == obj {
				return i
			}
			i++
		}
	}
	return -1
}

func parentStmtOf(root ast.Node, target ast.Node) ast.Stmt {
	var found ast.Stmt
	var stack []ast.Node
	ast.Inspect(root, func(x ast.Node) bool {
		if x == nil {
			stack = stack[:len(stack)-1]
			return true
		}
		if x == target {
			for i := len(stack) - 1; i >= 0; i-- {
				if s, ok := stack[i].(ast.Stmt); ok {
					found = s
					break
				}
			}
		}
		stack = append(stack, x)
		return true
	})
	return found
}

// ---- only the last element decides ----------------------------------------------------------------------------------------

// ruleNoLastIterationWins: a judgement over a collection that is overwritten in every iteration and never read inside the
// loop is decided by the last element alone (`same = a[i] == b[i]` for `same = same && …`).
func ruleNoLastIterationWins(c *Ctx, rule string, pkgs ...string) {
	c.Rule(rule, "a judgement over a whole collection takes every element into account: a boolean declared outside a loop is not overwritten unconditionally in every iteration by an expression that does not read it while nothing in the loop reads it and the loop has no break — there only the last element decides (`ok = a[i] == b[i]` where `ok = ok && …` was meant), so a row, column or cell is judged by its last component")
	c.Robust(rule)
	w := c.W
	n := 0
	for _, name := range w.SortedFuncNames() {
		f := w.Funcs[name]
		okPkg := false
		for _, p := range pkgs {
			if f.Pkg == w.Pkgs[p] {
				okPkg = true
			}
		}
		if !okPkg || f.Decl.Body == nil {
			continue
		}
		info := f.Pkg.TypesInfo
		k := 0
		ast.Inspect(f.Decl.Body, func(x ast.Node) bool {
			var body *ast.BlockStmt
			switch y := x.(type) {
			case *ast.RangeStmt:
				body = y.Body
			case *ast.ForStmt:
				body = y.Body
			}
			if body == nil {
				return true
			}
			n++
			hasBreak := false
			ast.Inspect(body, func(z ast.Node) bool {
				switch b := z.(type) {
				case *ast.BranchStmt:
					if b.Tok == token.BREAK || b.Tok == token.GOTO {
						// the labelled breaks the helper substitution writes stand for the helper's returns
						if b.Label == nil || !strings.HasPrefix(b.Label.Name, "L_h") {
							hasBreak = true
						}
					}
				}
				return true
			})
			if hasBreak {
				return true
			}
			for _, st := range body.List {
				as, ok := st.(*ast.AssignStmt)
				if !ok || as.Tok != token.ASSIGN || len(as.Lhs) != 1 || len(as.Rhs) != 1 {
					continue
				}
				id, ok := ast.Unparen(as.Lhs[0]).(*ast.Ident)
				if !ok {
					continue
				}
				v, ok := info.ObjectOf(id).(*types.Var)
				if !ok || v.IsField() || v.Pos() >= x.Pos() && v.Pos() < x.End() {
					continue
				}
				if b, ok := v.Type().Underlying().(*types.Basic); !ok || b.Kind() != types.Bool {
					continue
				}
				if _, isConst := info.Types[as.Rhs[0]]; isConst && info.Types[as.Rhs[0]].Value != nil {
					continue // `found = true` is a flag, not a judgement of this element
				}
				reads := 0
				ast.Inspect(x, func(z ast.Node) bool {
					if zi, ok := z.(*ast.Ident); ok && zi != id && info.ObjectOf(zi) == types.Object(v) {
						reads++
					}
					return true
				})
				if reads > 0 {
					continue
				}
				k++
				c.Fail(rule, f.Name+"|last-iteration-wins#"+itoa(k), as.Pos(), "%s overwrites %s in every iteration of the loop at %s with a value computed from the current element only, and nothing in the loop reads it: after the loop it tells about the last element alone, the earlier ones are not taken into account", f.Name, id.Name, w.Pos(x.Pos()))
			}
			return true
		})
	}
	c.OK(rule, "loops|judgements", token.NoPos, n, "%d loops examined: no boolean that only the last iteration decides", n)
}

// ---- long-lived memory changes only when the statement can no longer be refused --------------------------------------------

// ruleNoStateBeforeRefusal: a store into memory that outlives the statement (a field of the service, a map or sync.Map it
// holds) is not followed by a path on which the same function still returns an error.
func ruleNoStateBeforeRefusal(c *Ctx, rule string) {
	c.Rule(rule, "memory that outlives the statement changes only when the statement can no longer be refused: in the methods of RelationService a store into the service itself (an assignment rooted at the receiver, or Store/Delete/Swap/… on a map-like field of a library type) is not followed by a path on which the method still returns an error — a refused CREATE TABLE / INSERT that has already primed a cache leaves the process with a schema, offset or counter that the tables do not have")
	c.Robust(rule)
	w := c.W
	mutating := map[string]bool{"Store": true, "Delete": true, "LoadOrStore": true, "LoadAndDelete": true, "Swap": true, "CompareAndSwap": true, "CompareAndDelete": true, "Clear": true, "Add": true, "Set": true, "Put": true, "Remove": true}
	n, total := 0, 0
	for _, name := range w.SortedFuncNames() {
		f := w.Funcs[name]
		if f.Pkg != w.Pkgs["storage"] || f.Decl.Recv == nil || len(f.Decl.Recv.List) == 0 || len(f.Decl.Recv.List[0].Names) == 0 || f.Decl.Body == nil {
			continue
		}
		if !strings.Contains(types.ExprString(f.Decl.Recv.List[0].Type), "RelationService") {
			continue
		}
		n++
		recv := f.ObjOf(f.Decl.Recv.List[0].Names[0])
		rooted := func(e ast.Expr) bool {
			for {
				switch y := ast.Unparen(e).(type) {
				case *ast.SelectorExpr:
					e = y.X
				case *ast.IndexExpr:
					e = y.X
				case *ast.StarExpr:
					e = y.X
				case *ast.Ident:
					return f.ObjOf(y) == recv
				default:
					return false
				}
			}
		}
		g := f.Graph()
		k := 0
		check := func(at ast.Node, what string) {
			k++
			total++
			key := f.Name + "|state-store#" + itoa(k)
			loc, ok := g.Locate(at)
			if !ok {
				c.Undecided(rule, key, "the store at %s could not be located in the flow graph", w.Pos(at.Pos()))
				return
			}
			var bad *ast.ReturnStmt
			g.Forward(&loc, nil, func(nn ast.Node, at Loc) Verdict {
				if r, ok := nn.(*ast.ReturnStmt); ok {
					if len(r.Results) > 0 {
						last := ast.Unparen(r.Results[len(r.Results)-1])
						if id, ok := last.(*ast.Ident); !ok || id.Name != "nil" {
							if t := f.Pkg.TypesInfo.TypeOf(last); t != nil && types.TypeString(t, nil) == "error" {
								bad = r
								return Hit
							}
						}
					}
					return Cut
				}
				return Go
			}, nil)
			if bad != nil {
				c.Fail(rule, key, at.Pos(), "%s changes %s and can still return an error afterwards (%s): a refused statement leaves the service's memory changed although the tables are not", f.Name, what, w.Pos(bad.Pos()))
			} else {
				c.OK(rule, key, at.Pos(), 1, "no error return after the store into %s", what)
			}
		}
		inspectBody(f.Decl.Body, func(x ast.Node) bool {
			switch y := x.(type) {
			case *ast.AssignStmt:
				if y.Tok == token.DEFINE {
					return true
				}
				for _, l := range y.Lhs {
					if _, isId := ast.Unparen(l).(*ast.Ident); !isId && rooted(l) {
						check(y, types.ExprString(l))
					}
				}
			case *ast.IncDecStmt:
				if _, isId := ast.Unparen(y.X).(*ast.Ident); !isId && rooted(y.X) {
					check(y, types.ExprString(y.X))
				}
			case *ast.CallExpr:
				sel, ok := ast.Unparen(y.Fun).(*ast.SelectorExpr)
				if !ok || !mutating[sel.Sel.Name] || !rooted(sel.X) {
					return true
				}
				if _, isId := ast.Unparen(sel.X).(*ast.Ident); isId {
					return true // a method of the service itself: judged by its own body
				}
				fn, _ := f.Pkg.TypesInfo.Uses[sel.Sel].(*types.Func)
				if fn == nil || fn.Pkg() == nil || w.byObj[fn] != nil {
					return true // repository methods are judged by their own rules
				}
				check(y, types.ExprString(sel.X))
			}
			return true
		})
	}
	if total == 0 {
		c.OK(rule, "RelationService|no-state", token.NoPos, n, "%d methods of RelationService examined: none stores into the service's own memory", n)
	}
}

// borrow runs another property's rules in a scratch context and adopts the obligations of one rule (optionally only the
// keys with a given prefix) under a rule id of this property.
func borrow(c *Ctx, run func(*Ctx), fromRule, toRule, keyPrefix, text string) {
	sub := NewCtx(c.Prop, c.W)
	run(sub)
	if text == "" {
		text = sub.Rules[fromRule]
	}
	c.Rule(toRule, text)
	if sub.robust[fromRule] {
		c.Robust(toRule)
	}
	for _, o := range sub.Obs {
		if o.Rule == fromRule && strings.HasPrefix(o.Key, keyPrefix) {
			o.Rule = toRule
			c.Obs = append(c.Obs, o)
		}
	}
}

// ---- the LSN counter never moves backwards ------------------------------------------------------------------------------

// ruleLSNMonotone: LSNs order every change of a page; redo skips a record whose LSN is not larger than the stamp of the
// page it names. The counter that hands them out therefore only grows: it is read from the header, incremented, or set
// to a value that a guard shows to be larger than its present value.
func ruleLSNMonotone(c *Ctx, rule string) {
	c.Rule(rule, "the LSN counter never moves backwards: fileStore._nextLSN is only read from the header (open), incremented, or assigned a value that a dominating guard shows to be larger than (or equal to) its present value — the catalog inserts of CREATE TABLE stamp pages with LSNs that are in the header but in no log record, so a counter set back to 'last logged LSN' hands those LSNs out again and redo skips the records that carry them (a logged root move is lost after a crash)")
	c.Robust(rule)
	w := c.W
	n := 0
	for _, name := range w.SortedFuncNames() {
		f := w.Funcs[name]
		if f.Pkg != w.Pkgs["storage"] || f.Decl.Body == nil {
			continue
		}
		info := f.Pkg.TypesInfo
		isCounter := func(e ast.Expr) bool {
			sel, ok := ast.Unparen(e).(*ast.SelectorExpr)
			if !ok {
				return false
			}
			v, ok := info.ObjectOf(sel.Sel).(*types.Var)
			return ok && v.IsField() && v.Name() == "_nextLSN"
		}
		var g *Graph
		k := 0
		inspectBody(f.Decl.Body, func(x ast.Node) bool {
			as, ok := x.(*ast.AssignStmt)
			if !ok {
				return true
			}
			for i, l := range as.Lhs {
				if !isCounter(l) {
					continue
				}
				k++
				n++
				key := f.Name + "|lsn-counter-store#" + itoa(k)
				if as.Tok == token.ADD_ASSIGN {
					c.OK(rule, key, as.Pos(), 1, "the counter is added to")
					continue
				}
				if as.Tok != token.ASSIGN || len(as.Lhs) != len(as.Rhs) {
					c.Undecided(rule, key, "the store into the LSN counter at %s is not a plain assignment", w.Pos(as.Pos()))
					continue
				}
				rhs := ast.Unparen(as.Rhs[i])
				lk, rk := exprKey(l), exprKey(rhs)
				// counter + positive constant
				if be, ok := rhs.(*ast.BinaryExpr); ok && be.Op == token.ADD && exprKey(be.X) == lk {
					c.OK(rule, key, as.Pos(), 1, "counter + something")
					continue
				}
				if call, ok := rhs.(*ast.CallExpr); ok {
					if id, ok := ast.Unparen(call.Fun).(*ast.Ident); ok && id.Name == "max" {
						has := false
						for _, a := range call.Args {
							if exprKey(a) == lk {
								has = true
							}
						}
						if has {
							c.OK(rule, key, as.Pos(), 1, "max(counter, …)")
							continue
						}
					}
				}
				if g == nil {
					g = f.Graph()
				}
				loc, ok := g.Locate(as)
				if !ok {
					c.Undecided(rule, key, "the store into the LSN counter at %s could not be located in the flow graph", w.Pos(as.Pos()))
					continue
				}
				if g.HoldsAt(loc, Rel{rk, token.GTR, lk}) || g.HoldsAt(loc, Rel{rk, token.GEQ, lk}) {
					c.OK(rule, key, as.Pos(), 1, "guarded: %s is not smaller than the counter", rk)
					continue
				}
				c.Fail(rule, key, as.Pos(), "%s sets the LSN counter to %s whatever its present value: when the header is ahead of the log (CREATE TABLE stamps the catalog pages with LSNs it does not log) the counter moves backwards, the next statements reuse LSNs that pages already carry, and redo skips their records after a crash — a logged root move is lost and later rows go to the wrong leaf", f.Name, rk)
			}
			return true
		})
	}
	if n == 0 {
		c.OK(rule, "lsn-counter|no-plain-store", token.NoPos, 1, "no assignment to the LSN counter outside ++ and the header decode")
	}
}

// ---- CREATE TABLE is refused before the catalog changes, or not at all ----------------------------------------------------

// c14CreateAtomic: the catalog rows of a new table are several inserts (one page-table row, one schema row per column).
// A row the storage layer refuses (too large for a cell, a length out of range) must be found before the first of them.
func c14CreateAtomic(c *Ctx, rule string) {
	c.Rule(rule, "CREATE TABLE cannot be refused half way: in createTable no call that follows the first catalog insert can return a row-validation error (ErrRowTooLarge, ErrIntOutOfRange, ErrTypeMismatch, ErrColCountMismatch) unless a call that precedes the first catalog insert returns those errors for the same rows — otherwise a column whose catalog row is refused leaves the table registered with some of its columns, and the failed statement has changed the catalog ('table already exists')")
	c.Robust(rule)
	w := c.W
	cg := w.CG()
	var f *Func
	for _, name := range []string{"storage.(*RelationService).createTable", "storage.(*RelationService).CreateTable"} {
		if cand := w.F(name); cand != nil && len(cand.Calls(cand.Decl.Body, false, "storage.RelationService.createPage")) > 0 {
			f = cand
		}
	}
	if f == nil {
		c.Undecided(rule, "anchor|createTable", "no function allocating the table's first page found")
		return
	}
	ins := w.F("storage.(*BTree).insert")
	if ins == nil {
		c.Undecided(rule, "anchor|BTree.insert", "BTree.insert not found")
		return
	}
	sites := append([]*CallSite{}, cg.Sites[f]...)
	sortSites(sites)
	var first *CallSite
	for _, cs := range sites {
		if cs.InLit != nil || len(cs.Targets) == 0 {
			continue
		}
		if cg.Reach(cs.Targets...)[ins] {
			first = cs
			break
		}
	}
	if first == nil {
		c.Undecided(rule, f.Name+"|first-catalog-insert", "no call of createTable reaches BTree.insert")
		return
	}
	n := 0
	for _, cs := range sites {
		if cs.InLit != nil || cs.Call.Pos() <= first.Call.Pos() || len(cs.Targets) == 0 {
			continue
		}
		sent := coneSentinels(w, cs.Targets...)
		if len(sent) == 0 {
			continue
		}
		n++
		key := f.Name + "|refusal-after-catalog-change|" + calleeKey(cs.Callee)
		covered := ""
		have := map[string]bool{}
		var by []string
		for _, pre := range sites {
			if pre.InLit != nil || pre.Call.Pos() >= first.Call.Pos() || len(pre.Targets) == 0 {
				continue
			}
			if cg.Reach(pre.Targets...)[ins] {
				continue
			}
			if ss := coneSentinels(w, pre.Targets...); len(ss) > 0 {
				for _, s := range ss {
					have[s] = true
				}
				by = append(by, calleeKey(pre.Callee))
			}
		}
		all := true
		for _, s := range sent {
			if !have[s] {
				all = false
			}
		}
		if all {
			covered = strings.Join(by, ", ")
		}
		if covered != "" {
			c.OK(rule, key, cs.Call.Pos(), 2, "the rows are validated by %s before the first catalog insert", covered)
		} else {
			c.Fail(rule, key, cs.Call.Pos(), "%s can refuse a row (%s) after %s has already added the table to the catalog, and nothing validates the rows before: CREATE TABLE with a column whose catalog row is refused fails with the table half created — a second CREATE TABLE reports 'table already exists'", calleeKey(cs.Callee), strings.Join(sent, ", "), calleeKey(first.Callee))
		}
	}
	if n == 0 {
		c.OK(rule, f.Name+"|refusal-after-catalog-change|none", f.Decl.Pos(), len(sites), "no call after the first catalog insert can return a row-validation error")
	}
}

func sortSites(s []*CallSite) {
	for i := 1; i < len(s); i++ {
		for j := i; j > 0 && s[j].Call.Pos() < s[j-1].Call.Pos(); j-- {
			s[j], s[j-1] = s[j-1], s[j]
		}
	}
}

// ---- new explicit panics ---------------------------------------------------------------------------------------------------

// newPanicVerdict classifies an explicit panic that no reviewed exception covers. It is a violation when the analysis
// can see that it is reached by something a statement controls: it is unconditional, or it sits on the failure edge of
// an operation (err != nil, a failed comma-ok). Behind any other condition — a comparison of internal quantities, a
// nil test of an internal pointer, an arm of a switch — its reachability is an invariant question this analysis does
// not decide: a defensive assertion of a state that cannot occur and a reachable crash look alike.
func newPanicVerdict(f *Func, call *ast.CallExpr) (violation bool, why string) {
	info := f.Pkg.TypesInfo
	// nearest enclosing conditional construct
	var stack []ast.Node
	var chain []ast.Node
	ast.Inspect(f.Decl.Body, func(x ast.Node) bool {
		if x == nil {
			stack = stack[:len(stack)-1]
			return true
		}
		stack = append(stack, x)
		if x == ast.Node(call) {
			chain = append([]ast.Node{}, stack...)
		}
		return true
	})
	for i := len(chain) - 2; i >= 0; i-- {
		switch y := chain[i].(type) {
		case *ast.FuncLit:
			return false, "inside a function literal: when it runs is not decided"
		case *ast.IfStmt:
			// in the else branch the condition is negated; treat both alike: what matters is what it talks about
			failure := false
			ast.Inspect(y.Cond, func(z ast.Node) bool {
				switch e := z.(type) {
				case *ast.BinaryExpr:
					if e.Op == token.NEQ || e.Op == token.EQL {
						for _, side := range []ast.Expr{e.X, e.Y} {
							if t := info.TypeOf(side); t != nil && types.TypeString(t, nil) == "error" {
								failure = true
							}
						}
					}
				case *ast.UnaryExpr:
					if e.Op == token.NOT {
						if id, ok := ast.Unparen(e.X).(*ast.Ident); ok {
							if rhs, _, ok := f.definedBy(f.Decl.Body, f.ObjOf(id)); ok {
								switch r := ast.Unparen(rhs).(type) {
								case *ast.TypeAssertExpr, *ast.IndexExpr:
									_ = r
									failure = true
								}
							}
						}
					}
				}
				return true
			})
			if failure {
				return true, "it sits on the failure edge of an operation (" + exprKey(y.Cond) + "): whenever that operation fails the engine crashes instead of returning an error"
			}
			return false, "it is guarded by `" + exprKey(y.Cond) + "`, a condition over internal state whose possibility this analysis does not decide (an assertion of an impossible state and a reachable crash look alike)"
		case *ast.CaseClause:
			return false, "it is in an arm of a switch whose totality this analysis does not decide here"
		case *ast.CommClause:
			return false, "it is in an arm of a select"
		}
	}
	// a helper that does nothing but panic is judged where it is called
	if _, pinned := pinnedFuncs[f.Name]; !pinned && len(f.Decl.Body.List) <= 2 {
		if in := f.w.CG().In[f]; len(in) > 0 {
			for _, cs := range in {
				if cs.Caller == f {
					continue
				}
				if bad, why := newPanicVerdict(cs.Caller, cs.Call); bad {
					return true, "its helper " + f.Name + " is called at " + f.w.Pos(cs.Call.Pos()) + " where " + why
				}
			}
			return false, "it is the body of the helper " + f.Name + ", every call of which is behind a condition over internal state"
		}
	}
	return true, "it is unconditional: every execution of " + f.Name + " that reaches this point crashes"
}

// ---- dispatch written as a table --------------------------------------------------------------------------------------------

// tableLiteral resolves a package-level `var M = map[K]V{ C1: v1, … }` (keys named constants) that is never assigned
// again, given an expression that names M. It returns constant name -> value expression.
func tableLiteral(f *Func, e ast.Expr) map[string]ast.Expr {
	id, ok := ast.Unparen(e).(*ast.Ident)
	if !ok {
		return nil
	}
	v, ok := f.ObjOf(id).(*types.Var)
	if !ok || v.Pkg() == nil || v.Parent() != v.Pkg().Scope() {
		return nil
	}
	var lit *ast.CompositeLit
	for _, file := range f.Pkg.Syntax {
		ast.Inspect(file, func(n ast.Node) bool {
			switch y := n.(type) {
			case *ast.FuncDecl:
				return false
			case *ast.ValueSpec:
				for i, nm := range y.Names {
					if f.Pkg.TypesInfo.Defs[nm] == types.Object(v) && i < len(y.Values) {
						if cl, ok := ast.Unparen(y.Values[i]).(*ast.CompositeLit); ok {
							lit = cl
						}
					}
				}
			}
			return true
		})
	}
	if lit == nil {
		return nil
	}
	if _, isMap := f.Pkg.TypesInfo.TypeOf(lit).Underlying().(*types.Map); !isMap {
		return nil
	}
	// never stored into afterwards
	stored := false
	for _, fn := range f.w.Funcs {
		if fn.Pkg != f.Pkg || fn.Decl.Body == nil {
			continue
		}
		ast.Inspect(fn.Decl.Body, func(n ast.Node) bool {
			if as, ok := n.(*ast.AssignStmt); ok {
				for _, l := range as.Lhs {
					root := ast.Unparen(l)
					if ix, ok := root.(*ast.IndexExpr); ok {
						root = ast.Unparen(ix.X)
					}
					if rid, ok := root.(*ast.Ident); ok && fn.ObjOf(rid) == types.Object(v) {
						stored = true
					}
				}
			}
			return true
		})
	}
	if stored {
		return nil
	}
	out := map[string]ast.Expr{}
	for _, el := range lit.Elts {
		kv, ok := el.(*ast.KeyValueExpr)
		if !ok {
			return nil
		}
		cst := f.namedConst(kv.Key)
		if cst == nil {
			return nil
		}
		out[cst.Name()] = kv.Value
	}
	return out
}

// methodNamed: the method a dispatch-table value stands for — the method expression (*T).M, the method value x.M, or a
// function literal whose body is `return p.M(…)`.
func methodNamed(f *Func, e ast.Expr) string {
	switch y := ast.Unparen(e).(type) {
	case *ast.SelectorExpr:
		if fn, ok := f.Pkg.TypesInfo.Uses[y.Sel].(*types.Func); ok {
			return fn.Name()
		}
	case *ast.FuncLit:
		if len(y.Body.List) == 1 {
			if r, ok := y.Body.List[0].(*ast.ReturnStmt); ok && len(r.Results) == 1 {
				if call, ok := ast.Unparen(r.Results[0]).(*ast.CallExpr); ok {
					if sel, ok := ast.Unparen(call.Fun).(*ast.SelectorExpr); ok {
						if fn, ok := f.Pkg.TypesInfo.Uses[sel.Sel].(*types.Func); ok {
							return fn.Name()
						}
					}
				}
			}
		}
	}
	return ""
}
