#!/bin/sh
# usage: tools/try_mutants.sh [pattern]  — run every implemented property against each seeded patch (analysed on a scratch copy)
cd /verif
for d in seeded/${1:-*}/; do
  n=$(basename $d)
  [ -f $d/patch.diff ] || continue
  out=$(bin/mkdbcheck -property all -patch $d/patch.diff 2>&1)
  v=$(echo "$out" | grep -E '^VIOLATION' | sed 's/VIOLATION property=\([A-Z0-9]*\).*/\1/' | sort -u | tr '\n' ' ')
  u=$(echo "$out" | grep -E '^UNDECIDED' | sed 's/UNDECIDED property=\([A-Z0-9]*\).*/\1/' | sort -u | tr '\n' ' ')
  e=$(echo "$out" | grep -E '^patch:' | head -1 | cut -c1-80)
  echo "$n  VIOLATION:[$v] UNDECIDED:[$u] $e"
done
