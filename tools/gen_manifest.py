#!/usr/bin/env python3
"""Regenerates /verif/MANIFEST.json from the table below (kept in one place so the manifest stays valid)."""
import json, subprocess, sys

CLAIMED = {
 "C18": ("panic-source enumeration over the ExecQuery call cone with discharge by comma-ok form, flow-insensitive type-set inference, dominating guards and reviewed exceptions with re-checked side conditions; lock pairing and lock-nesting analysis",
         "For every path of every function reachable from Session.ExecQuery in engine and storage: each type assertion is checked, proven by type sets (with nil excluded by a dominating test) or covered by a reviewed exception whose side condition is re-checked each run; explicit panics are unreachable by the same arguments; constant indexes are guarded; statements run only behind the no-database guard and session state is committed only after a successful USE; every store-lock acquisition is released on all exits and no exclusive acquisition is reachable inside a shared bracket (no self-deadlock); join padding rows have the width of the other side.",
         "A discipline slightly stronger than 'cannot panic' (DESIGN.md §6). Bounds of variable indices into row values, termination of page-chain loops and memory exhaustion are not decided.", "DESIGN.md §4 C18"),
 "C19": ("enum-totality of type switches, CFG rules on the import loop's rejection paths, dominance of the NULL-marker test, operator-interval check of the short-record guard",
         "Static necessary conditions of faithful CSV import: every switch over the column type is total or fails; every rejection path before the INSERT reports and continues, only EOF / a non-parse read error ends the loop; the short-record guard rejects exactly len <= max index; one single-row INSERT per record from a freshly allocated row; the \\N test dominates every conversion; the separator is the first rune; integers base 10; types taken in destination-column order.",
         "Equality of converted values with the record's fields for all inputs is not decided.", "DESIGN.md §4 C19"),
 "C20": ("constant-dependence and data-dependence rules on the console's split and submit decision; dominance of utf8.FullRune over DecodeRune",
         "Static necessary conditions of the console submitting what was typed: the split tracks the opening quote and closes a literal only on the same character, honours backslash, consults both quote kinds and ';', cuts line[rest:cur+1]; Enter submits iff only blanks follow the split's rest and hands on exactly the split's statements; the buffer is cleared only on submit; every piece is executed once in order; a rune is decoded only from a full rune.",
         "That the split is correct for every statement list is not decided; only these necessary conditions are.", "DESIGN.md §4 C20"),

 "C05": ("dispatch-table agreement (token -> operator / evaluator arm), layering of productions over the call graph, CFG ordering of the SELECT pipeline, truth-table evaluation of the boolean comparator",
         "Static necessary conditions of single-table SELECT meaning: pipeline stages run filter->project->aggregate->sort->offset->limit and feed each other; each comparison token is evaluated with its own Go operator for ints and strings (sides normalised); two-character operators agree with the token table; OR/AND dispatch to ||/&& with both operands always evaluated; precedence layering OrCondition>AndCondition>Predicate with no upward call; the sort comparator is 'less' per type and negated exactly for DESC of the current key; LIMIT/OFFSET flags guard their own values; quoted text never becomes a keyword; projected rows get fresh storage.",
         "Equality of results with a reference evaluator over all contents is not decided.", "DESIGN.md §4 C05"),
 "C06": ("dispatch-table and value-agreement rules on the join arms; must-assign path rule on the join-type variable",
         "Static necessary conditions of join semantics: LEFT/RIGHT/INNER keywords map to their constants, the join type is assigned in every iteration, every storable type has an executor arm; in each arm left.Merge(right) matches the header order, padding rows have the width of the other side and the correct position, unmatched rows are appended on the !hasMatch edge of the preserved side's loop; unqualified duplicate names yield ErrFieldAmbiguous, qualified lookups compare column and table id, alias-or-name table ids; merged rows use fresh storage; AND/OR evaluate both operands so ambiguity is always reported.",
         "Multiset equality of results is not decided.", "DESIGN.md §4 C06"),
 "C07": ("list-production rule, data-dependence of the rounding operand, format-string analysis of the group key",
         "Static necessary conditions of true aggregates: GROUP BY accepts commas; the group key is built from quoted, delimited fragments and the AVG counter key includes the column identity; the COUNT seed is reset per column and counts non-NULL values; empty input yields int64 zeros; no rounded value re-enters the running average (recorded known finding D7b: the suite pins the step-wise rounded results).",
         "Numerical values of COUNT/AVG are not decided beyond these clauses.", "DESIGN.md §4 C07"),
 "C09": ("progress analysis of parser loops and production recursion (token consumption as ranking function) + panic-source enumeration with dominating-guard discharge over the front-end call cone",
         "For every path: each parser loop consumes a token per iteration and no cycle of production calls is free of consumption (termination in O(n) productions); every type assertion in the cone is checked, no explicit panic exists, every index/slice is dominated by the guard that makes it safe, the token cursor is only advanced under its guard; the vendored scanner's refill never fills the sentinel slot.",
         "A discipline slightly stronger than 'cannot panic' (an unchecked assertion that is safe for reasons outside the analysis is reported). Vendored scanner internals other than the refill bound are trusted.", "DESIGN.md §4 C09"),
 "C10": ("list-production separator rule, end-of-input dominance, totality/injectivity of the keyword table evaluated with go/constant, keyword/clause dispatch tables, production layering",
         "Static necessary conditions of faithful parsing: every list production matches its separator between elements; a successful Parse is dominated by the EOF test; every reserved-word constant has a distinct, upper-case, non-empty spelling and init reads exactly that range; two-character operators agree with the table; statement keywords dispatch to their own production; ASC/DESC, LIMIT/OFFSET, LEFT/RIGHT/INNER map to themselves; AND binds tighter than OR by layering; quoted identifiers and literals never pass the keyword lookup.",
         "Equality of the whole tree for all renderings is not decided (needs generation and execution).", "DESIGN.md §4 C10"),

 "C08": ("dominating-guard rules, interval arithmetic over go/constant, wire-grammar symmetry, frozen dispatch tables",
         "Static necessary conditions of exact read-back and refusal: Validate dominates every typed encode of the same value; the INT arm accepts exactly [MinInt32, MaxInt32] (interval computed from operators and constants); every store of external bytes into a cell is dominated by the row-size check (len <= maxValueSize) with the length co-assigned; row and schema codecs are symmetric per type; literal tokens convert base-10 / verbatim; Decode always fills a fresh map (NULL columns are skipped, not cleared); SQL types map to the same storage types along parser, CREATE TABLE and catalog.",
         "Does not decide byte-exactness through the vendored scanner's escapes, nor equality over all values; 32-bit int width of strconv.Atoi is only compiled (GOARCH=386) in the thorough tier.", "DESIGN.md §4 C08"),
 "C14": ("dominance of validation over mutation + call-cone sentinel reachability for statement loops",
         "Static necessary conditions of failing statements changing nothing: per row, lookup, column-count test and Encode (type/range validation) dominate the tree insert; the size check dominates every cell store; nothing is marked dirty on updateCell's error edge; CREATE TABLE's duplicate test dominates allocation and catalog inserts; a per-row statement loop whose mutator can return a validation sentinel after an earlier iteration mutated is reported (two recorded known findings, D9a/b).",
         "State equality is not decided; I/O errors are outside the property. The multi-row INSERT/UPDATE findings are genuine defects recorded in known_findings.jsonl.", "DESIGN.md §4 C14"),
 "C15": ("edge-dominance and paired-update rules on the LRU's control-flow graph",
         "Static necessary conditions of a correct LRU: the victim is removed only through the not-dirty edge of a live isDirty() on that element, Remove is paired with delete of the victim's key and PushFront with registration under the inserted key, every hit path promotes and set refreshes the stored page, the victim search runs from Back via Prev, PushFront on a full cache only after an eviction, refusal only when the search ran off the list, and the refusal is surfaced as ErrLRUCacheFull by every caller.",
         "Bound to the list+map representation; model equivalence over operation sequences is not decided.", "DESIGN.md §4 C15"),
 "C16": ("who-may-read/who-may-touch confinement + the eviction, dirty-marking and flush rules",
         "Static necessary conditions of cache-size independence: the data file is read only in fetch on the miss edge of LRUCache.get and the page is registered before it is returned; the cache representation is touched only by LRUCache methods and the flush iteration; pages become clean only after their own successful write; only clean pages are evicted; every page changed by an insert is marked dirty and cell bytes carry their length.",
         "The quantifier over capacities is not decided (capacity is a compile-time literal); pages mutated through a pointer held across an eviction need the runtime premise that the dirty set fits the cache.", "DESIGN.md §4 C16"),
 "C17": ("value-agreement of sibling path builders + typestate rules on the USE arm (go/cfg dominance on the OpenRelation error edge)",
         "Static necessary conditions of database isolation: the three path builders normalise the name identically (ToLower) with distinct file constants; in USE the session fields are stored only after OpenRelation succeeded, the previous service is closed after the new one opened on every replacing path, re-selection is detected case-insensitively; existence tests dominate file creation with the right polarity; CreateDB closes its temporary flushing service.",
         "Contents per database over histories and SHOW DATABASES output are not decided.", "DESIGN.md §4 C17"),

 "C01": ("transfer-completeness, dominating-guard and must-pass-through rules over go/cfg + source call graph",
         "Static necessary conditions of table-content integrity on every path: the tombstone survives every cell copy (split), every row handed to a scan callback or returned by lookup is dominated by the not-deleted edge, the row-id counter is confined and advanced on every success path, a root move is detected after every BTree.insert and recorded in the catalog / logged, both split paths install a new root the same way, and every page changed by an insert is marked dirty before the function returns.",
         "Does not decide that scans visit every live row exactly once for arbitrary split patterns nor equality with a model over histories; assumes ascending keys.", "DESIGN.md §4 C01"),
 "C03": ("wire-framing symmetry + path enumeration of the log reader under each end-of-file error + the C02 redo rules",
         "Static necessary conditions for surviving a crash inside the log append: writer/reader framing agree (u32le length of the encoded body, then the body), records are written in batch order inside their iteration, the reader treats a cut inside the last record (io.EOF / io.ErrUnexpectedEOF at either read) as end of log and never returns it as an error, plus the per-record freshness/guard/do-redo rules of C02 that make a prefix of records a prefix of row operations.",
         "Does not decide that the recovered state is a row-prefix state; in particular the two-record root move (insert record, then catalog record) is not analysed.", "DESIGN.md §4 C03"),
 "C11": ("structural index-arithmetic, paired-store and must-pass-through rules on the insert/split code (go/ast, go/cfg)",
         "Static necessary conditions of tree shape: sibling links are assigned in matched pairs with their flags, a fullness test follows every cell add and its full edge leads to split, split keeps [0,M) and moves exactly [M,len) (leaf) / promotes M and moves [M+1,len) with the rightmost children handed over in the right order (internal), persisted cell fields survive the copy, the page allocator only advances by one page, a new root is installed identically on both split paths, every changed page is marked dirty, the parent receives separator and children consistently.",
         "Key order, separator bounds and equal depth are inductive invariants over histories and are not decided; a refactoring of split into a shape the extractor does not know yields UNDECIDED.", "DESIGN.md §4 C11"),

 # id: (technique, level text, level note, design ref)
 "C02": ("CFG must-pass-through + do/redo table agreement + wire-grammar symmetry (go/cfg, go/types)",
         "Static necessary conditions of crash durability, decided on every path of the statement, logging, log-writer, replay and flush functions: log-before-acknowledge, fsync per record, a fresh LSN per logged operation, redo-guard polarity and coverage, do/redo agreement per WAL operation, record/page/cell/LSN agreement, codec symmetry of log records and file header, flush order, recovery leaving the LSN counter above every replayed record. Each clause, when broken, loses or misapplies an acknowledged statement for some crash point; together they do NOT prove that recovery reconstructs every state.",
         "Does not decide that redo reproduces identical splits/offsets nor equality of recovered contents. Trusts os.File.Sync/Write semantics; csvimport's documented fsync opt-out is not a subject.", "DESIGN.md §4 C02"),
 "C04": ("who-may-write + lock-bracket + CFG ordering rules on the flush (go/cfg, source call graph)",
         "Static preconditions of torn-flush recovery: the data file is written only inside the exclusive flush section, header strictly after pages, success implies header written, a page is marked clean only after its own successful write, only non-dirty pages are skipped, every page image carries the LSN stored by markDirty, recovery ends in the same flush with the LSN counter advanced, redo guard polarity.",
         "The bulk of C04 — whether every torn subset of page writes is repaired by redo — depends on runtime state and is NOT decided; the evidence says so.", "DESIGN.md §4 C04"),
 "C12": ("wire-grammar extraction and comparison of encoder/decoder + constant arithmetic over the extracted grammar (go/ast, go/types, go/constant)",
         "Field-by-field equality of the leaf and internal page encoders and decoders (widths, order, struct field identity, nesting, spliced cell area, pad), the page-size inequality and header/cell size constants recomputed from the extracted grammar, capacity test in isFull, and kind-byte dispatch agreement. For this property the structural part is nearly the whole property.",
         "Assumes encoding/binary and bytes.Buffer semantics; relies on C11.2 (occupancy) and C08.3 (value size) for the encoders' panic to be unreachable.", "DESIGN.md §4 C12"),
 "C13": ("lockset / lock-bracket analysis over per-function CFGs and the source call graph",
         "Lock discipline for every path: each statement-path call into storage that touches pages, cache, header, data file or log is inside the shared bracket (interprocedural always-called-inside fixpoint, or the callee locks itself); the log append is in the same bracket as the page changes; the timer goroutine touches shared state only under the exclusive lock; data-file writes only in the exclusive section. This is a lockset argument for both halves of the property under the stated goroutine assumptions.",
         "Assumes one session goroutine per service; CREATE DATABASE, USE, Close and recovery are outside the property's statement list and excluded by name. Shared state = btreeNode/leafCell/internalCell/LRUCache/cacheEntry fields, mutable fileStore fields, the data file.", "DESIGN.md §4 C13"),
}

PENDING_REASON = "check not built yet in this round (see DESIGN.md §4 for the planned static clauses)"

def main():
    props=[json.loads(l) for l in open('/verif/properties.jsonl')]
    checks=[]; na=[]
    for p in props:
        i=p['id']
        if i in CLAIMED:
            tech,text,note,ref=CLAIMED[i]
            checks.append({
              "property_id": i,
              "quick_cmd": f"bin/mkdbcheck -property {i} -tier quick",
              "thorough_cmd": f"bin/mkdbcheck -property {i} -tier thorough",
              "evidence_file": f"/verif/evidence/{i}.json",
              "replay_cmd_template": "bin/mkdbcheck -replay {path}",
              "engine": "mkdbcheck",
              "level_claimed": {"category":"other","text":text+" Further necessary-condition clauses added after the seeded-change campaigns (sibling agreement, ownership, sentinel identity, iterator stability, operand-shape rules) are listed rule by rule in DESIGN.md §4 and in the evidence file.","design_ref":ref},
              "level_note": note,
              "technique": "static analysis: "+tech,
            })
        else:
            na.append({"property_id": i, "reason": NA.get(i, PENDING_REASON)})
    m={
      "version":1,
      "setup_cmd":"cd /verif/checker && GOFLAGS=-mod=mod GOPROXY=off GOSUMDB=off GOTOOLCHAIN=local GOWORK=off go build -o /verif/bin/mkdbcheck .",
      "hooks":{"guard":"verif","enable":"no hooks are needed: the checks analyse /repo's source; -tags verif is only used as an extra build configuration in the thorough tier","baseline_off_cmd":"cd /repo && GOFLAGS=-mod=mod GOPROXY=off GOSUMDB=off go test -json -vet=off -count=1 ./...","source_commits":[],"add_only":True},
      "engines":[{"name":"mkdbcheck","path":"/verif/checker","serves_properties":sorted(CLAIMED),"kind_free_text":"repository-specific static analyser (go/packages + go/types + go/cfg + source call graph; golang.org/x/tools v0.29.0); no code of /repo is executed"}],
      "checks":checks,
      "not_applicable":na,
      "notes":"Every check re-loads /repo's working tree on each run. Exit 0 = all obligations discharged (KNOWN-FINDING lines for recorded defects), 1 = VIOLATION, 2 = UNDECIDED (an anchor or idiom was not recognised; never a silent pass). Known findings: /verif/known_findings.jsonl. Seeded mutants used to test the checks: /verif/seeded/. Defect demonstrations: /verif/defects/.",
    }
    json.dump(m,open('/verif/MANIFEST.json','w'),indent=1)
    print("claimed",len(checks),"not_applicable",len(na))

NA={}
if __name__=='__main__':
    main()
