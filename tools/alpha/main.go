// alpha: renames every local variable, parameter, receiver and named result of the non-vendored, non-test
// files of a mkdb tree (name -> name + suffix) in place. Used on a scratch copy to produce a behaviour-preserving
// patch that no rule may notice (local names are never anchors).
package main

import (
	"fmt"
	"go/ast"
	"go/token"
	"go/types"
	"os"
	"sort"
	"strings"

	"golang.org/x/tools/go/packages"
)

func main() {
	dir, suffix := os.Args[1], os.Args[2]
	switch suffix {
	case "-mirror":
		mirror(dir)
		return
	case "-shuffle":
		shuffle(dir)
		return
	case "-incdec":
		incdec(dir)
		return
	case "-negate":
		negate(dir)
		return
	case "-elsereturn":
		rewrite(dir, elseReturn)
		return
	case "-errinline":
		rewrite(dir, errInline)
		return
	case "-rangeidx":
		rewrite(dir, rangeIdx)
		return
	case "-vardecl":
		rewrite(dir, varDecl)
		return
	case "-opassign":
		rewrite(dir, opAssign)
		return
	case "-extractcond":
		rewrite(dir, extractCond)
		return
	case "-extractarg":
		rewrite(dir, extractArg)
		return
	case "-ifswitch":
		rewrite(dir, ifSwitch)
		return
	case "-guard":
		rewrite(dir, guard)
		return
	case "-errsplit":
		rewrite(dir, errSplit)
		return
	case "-whileloop":
		rewrite(dir, whileLoop)
		return
	case "-retvar":
		rewrite(dir, retVar)
		return
	case "-namelit":
		rewrite(dir, nameLit)
		return
	case "-addelse":
		rewrite(dir, addElse)
		return
	case "-fieldinit":
		rewrite(dir, fieldInit)
		return
	case "-nestif":
		rewrite(dir, nestIf)
		return
	case "-earlycontinue":
		rewrite(dir, earlyContinue)
		return
	}
	cfg := &packages.Config{Mode: packages.LoadSyntax, Dir: dir, Tests: false}
	pkgs, err := packages.Load(cfg, "./...")
	if err != nil {
		panic(err)
	}
	type edit struct {
		off  int
		name string
	}
	edits := map[string][]edit{}
	for _, p := range pkgs {
		for _, f := range p.Syntax {
			fname := p.Fset.Position(f.Pos()).Filename
			if strings.HasSuffix(fname, "_test.go") || strings.HasSuffix(fname, "go_scanner.go") || strings.HasSuffix(fname, "go_terminal.go") {
				continue
			}
			ast.Inspect(f, func(n ast.Node) bool {
				id, ok := n.(*ast.Ident)
				if !ok || id.Name == "_" {
					return true
				}
				obj := p.TypesInfo.ObjectOf(id)
				v, ok := obj.(*types.Var)
				if !ok || v.IsField() || v.Pkg() == nil || v.Parent() == v.Pkg().Scope() || v.Parent() == nil {
					return true
				}
				// implicit objects (type switch symbolic variable uses) are handled through their uses
				edits[fname] = append(edits[fname], edit{p.Fset.Position(id.Pos()).Offset, id.Name})
				return true
			})
			// the symbolic variable of a type switch: `switch v := x.(type)` defines no object for v itself
			ast.Inspect(f, func(n ast.Node) bool {
				ts, ok := n.(*ast.TypeSwitchStmt)
				if !ok {
					return true
				}
				if as, ok := ts.Assign.(*ast.AssignStmt); ok && len(as.Lhs) == 1 {
					if id, ok := as.Lhs[0].(*ast.Ident); ok && id.Name != "_" {
						edits[fname] = append(edits[fname], edit{p.Fset.Position(id.Pos()).Offset, id.Name})
					}
				}
				return true
			})
		}
	}
	_ = token.NoPos
	for fname, es := range edits {
		src, _ := os.ReadFile(fname)
		sort.Slice(es, func(i, j int) bool { return es[i].off > es[j].off })
		seen := map[int]bool{}
		for _, e := range es {
			if seen[e.off] {
				continue
			}
			seen[e.off] = true
			end := e.off + len(e.name)
			src = append(src[:end:end], append([]byte(suffix), src[end:]...)...)
		}
		os.WriteFile(fname, src, 0644)
		fmt.Println("renamed", len(seen), "identifiers in", fname)
	}
}

func skipFile(fname string) bool {
	return strings.HasSuffix(fname, "_test.go") || strings.HasSuffix(fname, "go_scanner.go") || strings.HasSuffix(fname, "go_terminal.go")
}

func simple(e ast.Expr) bool {
	switch x := e.(type) {
	case *ast.Ident, *ast.BasicLit:
		return true
	case *ast.ParenExpr:
		return simple(x.X)
	case *ast.SelectorExpr:
		return simple(x.X)
	case *ast.IndexExpr:
		return simple(x.X) && simple(x.Index)
	case *ast.CallExpr:
		if id, ok := x.Fun.(*ast.Ident); ok && (id.Name == "len" || id.Name == "cap") && len(x.Args) == 1 {
			return simple(x.Args[0])
		}
		// conversions of simple values
		if len(x.Args) == 1 {
			if id, ok := x.Fun.(*ast.Ident); ok {
				switch id.Name {
				case "int", "int64", "uint32", "uint64", "uint16", "int32", "uint8", "byte", "rune", "string":
					return simple(x.Args[0])
				}
			}
		}
	case *ast.BinaryExpr:
		switch x.Op {
		case token.ADD, token.SUB, token.MUL:
			return simple(x.X) && simple(x.Y)
		}
	}
	return false
}

// mirror: a OP b -> b OP' a for every comparison of two side-effect-free operands.
func mirror(dir string) {
	cfg := &packages.Config{Mode: packages.LoadSyntax, Dir: dir, Tests: false}
	pkgs, err := packages.Load(cfg, "./...")
	if err != nil {
		panic(err)
	}
	mir := map[token.Token]string{token.EQL: "==", token.NEQ: "!=", token.LSS: ">", token.GTR: "<", token.LEQ: ">=", token.GEQ: "<="}
	type edit struct {
		a, b int
		text string
	}
	for _, p := range pkgs {
		for _, f := range p.Syntax {
			fname := p.Fset.Position(f.Pos()).Filename
			if skipFile(fname) {
				continue
			}
			src, _ := os.ReadFile(fname)
			var es []edit
			ast.Inspect(f, func(n ast.Node) bool {
				be, ok := n.(*ast.BinaryExpr)
				if !ok {
					return true
				}
				op, ok := mir[be.Op]
				if !ok || !simple(be.X) || !simple(be.Y) {
					return true
				}
				a, m1, m2, b := p.Fset.Position(be.X.Pos()).Offset, p.Fset.Position(be.X.End()).Offset, p.Fset.Position(be.Y.Pos()).Offset, p.Fset.Position(be.Y.End()).Offset
				es = append(es, edit{a, b, string(src[m2:b]) + " " + op + " " + string(src[a:m1])})
				return false // operands are simple: nothing nested to rewrite
			})
			sort.Slice(es, func(i, j int) bool { return es[i].a > es[j].a })
			for _, e := range es {
				src = append(src[:e.a:e.a], append([]byte(e.text), src[e.b:]...)...)
			}
			os.WriteFile(fname, src, 0644)
			fmt.Println("mirrored", len(es), "comparisons in", fname)
		}
	}
}

// incdec: x++ -> x += 1, x-- -> x -= 1 (statements only; for-post clauses included).
func incdec(dir string) {
	cfg := &packages.Config{Mode: packages.LoadSyntax, Dir: dir, Tests: false}
	pkgs, err := packages.Load(cfg, "./...")
	if err != nil {
		panic(err)
	}
	for _, p := range pkgs {
		for _, f := range p.Syntax {
			fname := p.Fset.Position(f.Pos()).Filename
			if skipFile(fname) {
				continue
			}
			src, _ := os.ReadFile(fname)
			type edit struct {
				a, b int
				text string
			}
			var es []edit
			ast.Inspect(f, func(n ast.Node) bool {
				if s, ok := n.(*ast.IncDecStmt); ok {
					a, m, b := p.Fset.Position(s.Pos()).Offset, p.Fset.Position(s.X.End()).Offset, p.Fset.Position(s.End()).Offset
					op := " += 1"
					if s.Tok == token.DEC {
						op = " -= 1"
					}
					es = append(es, edit{a, b, string(src[a:m]) + op})
				}
				return true
			})
			sort.Slice(es, func(i, j int) bool { return es[i].a > es[j].a })
			for _, e := range es {
				src = append(src[:e.a:e.a], append([]byte(e.text), src[e.b:]...)...)
			}
			os.WriteFile(fname, src, 0644)
			fmt.Println("rewrote", len(es), "inc/dec statements in", fname)
		}
	}
}

// shuffle: the top-level function declarations of each file are written in reverse order (their doc comments
// travel with them); everything else stays where it is.
func shuffle(dir string) {
	cfg := &packages.Config{Mode: packages.LoadSyntax, Dir: dir, Tests: false}
	pkgs, err := packages.Load(cfg, "./...")
	if err != nil {
		panic(err)
	}
	for _, p := range pkgs {
		for _, f := range p.Syntax {
			fname := p.Fset.Position(f.Pos()).Filename
			if skipFile(fname) {
				continue
			}
			src, _ := os.ReadFile(fname)
			type span struct{ a, b int }
			var spans []span
			for _, d := range f.Decls {
				fd, ok := d.(*ast.FuncDecl)
				if !ok {
					continue
				}
				start := fd.Pos()
				if fd.Doc != nil {
					start = fd.Doc.Pos()
				}
				spans = append(spans, span{p.Fset.Position(start).Offset, p.Fset.Position(fd.End()).Offset})
			}
			if len(spans) < 2 {
				continue
			}
			texts := make([]string, len(spans))
			for i, sp := range spans {
				texts[i] = string(src[sp.a:sp.b])
			}
			var out []byte
			last := 0
			for i, sp := range spans {
				out = append(out, src[last:sp.a]...)
				out = append(out, texts[len(spans)-1-i]...)
				last = sp.b
			}
			out = append(out, src[last:]...)
			os.WriteFile(fname, out, 0644)
			fmt.Println("reversed", len(spans), "function declarations in", fname)
		}
	}
}

// negate: `if c { A } else { B }` (B a block, no init) -> `if !(c) { B } else { A }`.
func negate(dir string) {
	cfg := &packages.Config{Mode: packages.LoadSyntax, Dir: dir, Tests: false}
	pkgs, err := packages.Load(cfg, "./...")
	if err != nil {
		panic(err)
	}
	for _, p := range pkgs {
		for _, f := range p.Syntax {
			fname := p.Fset.Position(f.Pos()).Filename
			if skipFile(fname) {
				continue
			}
			src, _ := os.ReadFile(fname)
			type edit struct {
				a, b int
				text string
			}
			var es []edit
			ast.Inspect(f, func(n ast.Node) bool {
				ifs, ok := n.(*ast.IfStmt)
				if !ok || ifs.Init != nil || ifs.Else == nil {
					return true
				}
				eb, ok := ifs.Else.(*ast.BlockStmt)
				if !ok {
					return true
				}
				off := func(p2 token.Pos) int { return p.Fset.Position(p2).Offset }
				cond := string(src[off(ifs.Cond.Pos()):off(ifs.Cond.End())])
				then := string(src[off(ifs.Body.Pos()):off(ifs.Body.End())])
				els := string(src[off(eb.Pos()):off(eb.End())])
				es = append(es, edit{off(ifs.Pos()), off(ifs.End()), "if !(" + cond + ") " + els + " else " + then})
				return false // nested ifs inside are left alone in this pass
			})
			sort.Slice(es, func(i, j int) bool { return es[i].a > es[j].a })
			for _, e := range es {
				src = append(src[:e.a:e.a], append([]byte(e.text), src[e.b:]...)...)
			}
			os.WriteFile(fname, src, 0644)
			fmt.Println("negated", len(es), "if/else statements in", fname)
		}
	}
}

type tedit struct {
	a, b int
	text string
}

// rewrite applies one source-to-source rewriter to every non-vendored file.
func rewrite(dir string, fn func(p *packages.Package, f *ast.File, src []byte, off func(token.Pos) int) []tedit) {
	cfg := &packages.Config{Mode: packages.LoadSyntax, Dir: dir, Tests: false}
	pkgs, err := packages.Load(cfg, "./...")
	if err != nil {
		panic(err)
	}
	for _, p := range pkgs {
		for _, f := range p.Syntax {
			fname := p.Fset.Position(f.Pos()).Filename
			if skipFile(fname) {
				continue
			}
			src, _ := os.ReadFile(fname)
			off := func(q token.Pos) int { return p.Fset.Position(q).Offset }
			es := fn(p, f, src, off)
			sort.Slice(es, func(i, j int) bool { return es[i].a > es[j].a })
			last := len(src) + 1
			n := 0
			for _, e := range es {
				if e.b > last {
					continue // overlaps an edit already applied
				}
				src = append(src[:e.a:e.a], append([]byte(e.text), src[e.b:]...)...)
				last = e.a
				n++
			}
			os.WriteFile(fname, src, 0644)
			fmt.Println("rewrote", n, "sites in", fname)
		}
	}
}

func endsInJump(b *ast.BlockStmt) bool {
	if len(b.List) == 0 {
		return false
	}
	switch s := b.List[len(b.List)-1].(type) {
	case *ast.ReturnStmt:
		return true
	case *ast.BranchStmt:
		return s.Tok == token.CONTINUE || s.Tok == token.BREAK
	}
	return false
}

// elseReturn: `if c { …; return } else { B }` -> `if c { …; return }` followed by B's statements
// (only where B declares nothing that would clash: B must not contain := at its top level).
func elseReturn(p *packages.Package, f *ast.File, src []byte, off func(token.Pos) int) []tedit {
	var es []tedit
	ast.Inspect(f, func(n ast.Node) bool {
		var list []ast.Stmt
		switch b := n.(type) {
		case *ast.BlockStmt:
			list = b.List
		case *ast.CaseClause:
			list = b.Body
		default:
			return true
		}
		for _, st := range list {
			ifs, ok := st.(*ast.IfStmt)
			if !ok || ifs.Init != nil || ifs.Else == nil || !endsInJump(ifs.Body) {
				continue
			}
			eb, ok := ifs.Else.(*ast.BlockStmt)
			if !ok || len(eb.List) == 0 {
				continue
			}
			clash := false
			for _, s2 := range eb.List {
				switch y := s2.(type) {
				case *ast.AssignStmt:
					if y.Tok == token.DEFINE {
						clash = true
					}
				case *ast.DeclStmt:
					clash = true
				}
			}
			if clash {
				continue
			}
			body := string(src[off(eb.Lbrace)+1 : off(eb.Rbrace)])
			es = append(es, tedit{off(ifs.Body.End()), off(ifs.End()), "\n" + body})
		}
		return true
	})
	return es
}

// errInline: `err := f(…)` / `err = f(…)` immediately followed by `if err != nil { … }` where err is not
// mentioned after the if in the same block -> `if err := f(…); err != nil { … }` (only for the define form).
func errInline(p *packages.Package, f *ast.File, src []byte, off func(token.Pos) int) []tedit {
	var es []tedit
	ast.Inspect(f, func(n ast.Node) bool {
		blk, ok := n.(*ast.BlockStmt)
		if !ok {
			return true
		}
		for i := 0; i+1 < len(blk.List); i++ {
			as, ok := blk.List[i].(*ast.AssignStmt)
			if !ok || as.Tok != token.DEFINE || len(as.Lhs) != 1 || len(as.Rhs) != 1 {
				continue
			}
			id, ok := as.Lhs[0].(*ast.Ident)
			if !ok {
				continue
			}
			ifs, ok := blk.List[i+1].(*ast.IfStmt)
			if !ok || ifs.Init != nil || ifs.Else != nil {
				continue
			}
			be, ok := ifs.Cond.(*ast.BinaryExpr)
			if !ok || be.Op != token.NEQ {
				continue
			}
			cid, ok := be.X.(*ast.Ident)
			if !ok || p.TypesInfo.ObjectOf(cid) != p.TypesInfo.ObjectOf(id) {
				continue
			}
			if y, ok := be.Y.(*ast.Ident); !ok || y.Name != "nil" {
				continue
			}
			used := false
			for _, later := range blk.List[i+2:] {
				ast.Inspect(later, func(z ast.Node) bool {
					if zi, ok := z.(*ast.Ident); ok && p.TypesInfo.ObjectOf(zi) == p.TypesInfo.ObjectOf(id) {
						used = true
					}
					return true
				})
			}
			if used {
				continue
			}
			init := string(src[off(as.Pos()):off(as.End())])
			es = append(es, tedit{off(as.Pos()), off(ifs.Cond.Pos()), "if " + init + "; "})
			i++
		}
		return true
	})
	return es
}

// rangeIdx: `for _, v := range xs { B }` with xs a simple expression of slice type and v not assigned in B ->
// `for i_ := range xs { v := xs[i_]; B }`.
func rangeIdx(p *packages.Package, f *ast.File, src []byte, off func(token.Pos) int) []tedit {
	var es []tedit
	ast.Inspect(f, func(n ast.Node) bool {
		rs, ok := n.(*ast.RangeStmt)
		if !ok || rs.Tok != token.DEFINE || rs.Value == nil {
			return true
		}
		k, ok := rs.Key.(*ast.Ident)
		if !ok || k.Name != "_" {
			return true
		}
		v, ok := rs.Value.(*ast.Ident)
		if !ok || v.Name == "_" || !simple(rs.X) {
			return true
		}
		t := p.TypesInfo.TypeOf(rs.X)
		if t == nil {
			return true
		}
		if _, isSlice := t.Underlying().(*types.Slice); !isSlice {
			return true
		}
		assigned := false
		ast.Inspect(rs.Body, func(z ast.Node) bool {
			switch y := z.(type) {
			case *ast.AssignStmt:
				for _, l := range y.Lhs {
					if li, ok := l.(*ast.Ident); ok && p.TypesInfo.ObjectOf(li) == p.TypesInfo.ObjectOf(v) {
						assigned = true
					}
				}
			case *ast.UnaryExpr:
				if y.Op == token.AND {
					assigned = true
				}
			case *ast.FuncLit:
				assigned = true
			}
			return true
		})
		// the body must not store into (or re-slice) what it ranges over: range evaluates xs once
		xsKey := string(src[off(rs.X.Pos()):off(rs.X.End())])
		ast.Inspect(rs.Body, func(z ast.Node) bool {
			if y, ok := z.(*ast.AssignStmt); ok {
				for _, l := range y.Lhs {
					lt := string(src[off(l.Pos()):off(l.End())])
					if lt == xsKey || strings.HasPrefix(lt, xsKey+"[") {
						assigned = true
					}
				}
			}
			return true
		})
		if assigned {
			return true
		}
		xs := string(src[off(rs.X.Pos()):off(rs.X.End())])
		idx := v.Name + "Idx"
		es = append(es, tedit{off(rs.Pos()), off(rs.Body.Lbrace) + 1, "for " + idx + " := range " + xs + " {\n" + v.Name + " := " + xs + "[" + idx + "]\n"})
		return true
	})
	return es
}

// blocks calls fn for every statement list of the file.
func blocks(f *ast.File, fn func(list []ast.Stmt)) {
	ast.Inspect(f, func(n ast.Node) bool {
		switch b := n.(type) {
		case *ast.BlockStmt:
			fn(b.List)
		case *ast.CaseClause:
			fn(b.Body)
		case *ast.CommClause:
			fn(b.Body)
		}
		return true
	})
}

// varDecl: a statement `x := e` (one name, typed expression that is not an untyped constant) -> `var x = e`.
func varDecl(p *packages.Package, f *ast.File, src []byte, off func(token.Pos) int) []tedit {
	var es []tedit
	blocks(f, func(list []ast.Stmt) {
		for _, st := range list {
			as, ok := st.(*ast.AssignStmt)
			if !ok || as.Tok != token.DEFINE || len(as.Lhs) != 1 || len(as.Rhs) != 1 {
				continue
			}
			id, ok := as.Lhs[0].(*ast.Ident)
			if !ok || id.Name == "_" {
				continue
			}
			if _, isLit := as.Rhs[0].(*ast.FuncLit); isLit {
				continue
			}
			es = append(es, tedit{off(as.Pos()), off(as.Rhs[0].Pos()), "var " + id.Name + " = "})
		}
	})
	return es
}

// opAssign: `x += e` -> `x = x + (e)` for simple x, and `x = x + e` -> `x += e`.
func opAssign(p *packages.Package, f *ast.File, src []byte, off func(token.Pos) int) []tedit {
	var es []tedit
	ops := map[token.Token]string{token.ADD_ASSIGN: "+", token.SUB_ASSIGN: "-", token.MUL_ASSIGN: "*", token.OR_ASSIGN: "|", token.AND_ASSIGN: "&"}
	text := func(n ast.Node) string { return string(src[off(n.Pos()):off(n.End())]) }
	blocks(f, func(list []ast.Stmt) {
		for _, st := range list {
			as, ok := st.(*ast.AssignStmt)
			if !ok || len(as.Lhs) != 1 || len(as.Rhs) != 1 {
				continue
			}
			if op, ok := ops[as.Tok]; ok && simple(as.Lhs[0]) {
				rhs := text(as.Rhs[0])
				if _, isBin := as.Rhs[0].(*ast.BinaryExpr); isBin {
					rhs = "(" + rhs + ")"
				}
				es = append(es, tedit{off(as.Pos()), off(as.End()), text(as.Lhs[0]) + " = " + text(as.Lhs[0]) + " " + op + " " + rhs})
				continue
			}
			if as.Tok == token.ASSIGN {
				if be, ok := as.Rhs[0].(*ast.BinaryExpr); ok && (be.Op == token.ADD || be.Op == token.SUB) && text(be.X) == text(as.Lhs[0]) && simple(as.Lhs[0]) {
					rhs := text(be.Y)
					es = append(es, tedit{off(as.Pos()), off(as.End()), text(as.Lhs[0]) + " " + be.Op.String() + "= " + rhs})
				}
			}
		}
	})
	return es
}

var serial int

// extractCond: `if C {` with C a && / || / comparison of calls, no init -> `cN := C; if cN {`.
func extractCond(p *packages.Package, f *ast.File, src []byte, off func(token.Pos) int) []tedit {
	var es []tedit
	text := func(n ast.Node) string { return string(src[off(n.Pos()):off(n.End())]) }
	blocks(f, func(list []ast.Stmt) {
		for _, st := range list {
			ifs, ok := st.(*ast.IfStmt)
			if !ok || ifs.Init != nil {
				continue
			}
			be, ok := ifs.Cond.(*ast.BinaryExpr)
			if !ok || (be.Op != token.LAND && be.Op != token.LOR) {
				continue
			}
			serial++
			name := fmt.Sprintf("cond%d", serial)
			es = append(es, tedit{off(ifs.Pos()), off(ifs.Cond.End()), name + " := " + text(ifs.Cond) + "\nif " + name})
		}
	})
	return es
}

// extractArg: an expression statement or single assignment whose call has a call argument ->
// `argN := inner(…)` first (only the first such argument, and only when every argument before it is simple,
// so evaluation order is kept).
func extractArg(p *packages.Package, f *ast.File, src []byte, off func(token.Pos) int) []tedit {
	var es []tedit
	text := func(n ast.Node) string { return string(src[off(n.Pos()):off(n.End())]) }
	blocks(f, func(list []ast.Stmt) {
		for _, st := range list {
			var call *ast.CallExpr
			switch y := st.(type) {
			case *ast.ExprStmt:
				call, _ = y.X.(*ast.CallExpr)
			case *ast.AssignStmt:
				if len(y.Rhs) == 1 {
					call, _ = y.Rhs[0].(*ast.CallExpr)
					for _, l := range y.Lhs {
						if !simple(l) {
							call = nil
						}
					}
				}
			case *ast.ReturnStmt:
				if len(y.Results) == 1 {
					call, _ = y.Results[0].(*ast.CallExpr)
				}
			}
			if call == nil || call.Ellipsis.IsValid() {
				continue
			}
			// the callee expression must be simple too (a method value receiver is evaluated first)
			if !simple(call.Fun) {
				continue
			}
			for _, a := range call.Args {
				if simple(a) {
					continue
				}
				inner, ok := a.(*ast.CallExpr)
				if !ok {
					break
				}
				tv, ok := p.TypesInfo.Types[inner]
				if !ok || tv.IsType() {
					break
				}
				if _, isTuple := tv.Type.(*types.Tuple); isTuple {
					break
				}
				if tv.Value != nil {
					break
				}
				// conversions and builtins are left
				if ftv, ok := p.TypesInfo.Types[inner.Fun]; ok && (ftv.IsType() || ftv.IsBuiltin()) {
					break
				}
				serial++
				name := fmt.Sprintf("arg%d", serial)
				es = append(es, tedit{off(st.Pos()), off(st.Pos()), name + " := " + text(inner) + "\n"},
					tedit{off(inner.Pos()), off(inner.End()), name})
				break
			}
		}
	})
	return es
}

// ifSwitch: an if / else-if chain (two arms or more, no init statements) -> a tagless switch.
func ifSwitch(p *packages.Package, f *ast.File, src []byte, off func(token.Pos) int) []tedit {
	var es []tedit
	text := func(n ast.Node) string { return string(src[off(n.Pos()):off(n.End())]) }
	inner := func(b *ast.BlockStmt) string { return string(src[off(b.Lbrace)+1 : off(b.Rbrace)]) }
	hasBreak := func(b *ast.BlockStmt) bool {
		found := false
		ast.Inspect(b, func(z ast.Node) bool {
			switch y := z.(type) {
			case *ast.ForStmt, *ast.RangeStmt, *ast.SwitchStmt, *ast.TypeSwitchStmt, *ast.SelectStmt, *ast.FuncLit:
				return false
			case *ast.BranchStmt:
				if y.Tok == token.BREAK && y.Label == nil {
					found = true
				}
			}
			return true
		})
		return found
	}
	blocks(f, func(list []ast.Stmt) {
		for _, st := range list {
			ifs, ok := st.(*ast.IfStmt)
			if !ok || ifs.Else == nil {
				continue
			}
			var arms []string
			okChain := true
			n := 0
			for cur := ifs; cur != nil; {
				if cur.Init != nil || hasBreak(cur.Body) {
					okChain = false
					break
				}
				arms = append(arms, "case "+text(cur.Cond)+":"+inner(cur.Body))
				n++
				switch e := cur.Else.(type) {
				case *ast.IfStmt:
					cur = e
				case *ast.BlockStmt:
					if hasBreak(e) {
						okChain = false
					}
					arms = append(arms, "default:"+inner(e))
					cur = nil
				default:
					cur = nil
				}
			}
			if !okChain || n < 2 {
				continue
			}
			es = append(es, tedit{off(ifs.Pos()), off(ifs.End()), "switch {\n" + strings.Join(arms, "\n") + "\n}"})
		}
	})
	return es
}

// guard: in a function without results, a final `if C { A }` (no else, no init) -> `if !(C) { return }` + A.
func guard(p *packages.Package, f *ast.File, src []byte, off func(token.Pos) int) []tedit {
	var es []tedit
	text := func(n ast.Node) string { return string(src[off(n.Pos()):off(n.End())]) }
	for _, d := range f.Decls {
		fd, ok := d.(*ast.FuncDecl)
		if !ok || fd.Body == nil || len(fd.Body.List) == 0 {
			continue
		}
		if fd.Type.Results != nil && len(fd.Type.Results.List) > 0 {
			continue
		}
		hasDeferOrClash := false
		ifs, ok := fd.Body.List[len(fd.Body.List)-1].(*ast.IfStmt)
		if !ok || ifs.Init != nil || ifs.Else != nil {
			continue
		}
		// names declared in A must not clash with names declared before it in the function body
		declared := map[string]bool{}
		for _, st := range fd.Body.List[:len(fd.Body.List)-1] {
			if as, ok := st.(*ast.AssignStmt); ok && as.Tok == token.DEFINE {
				for _, l := range as.Lhs {
					if id, ok := l.(*ast.Ident); ok {
						declared[id.Name] = true
					}
				}
			}
			if _, ok := st.(*ast.DeclStmt); ok {
				hasDeferOrClash = true
			}
		}
		for _, st := range ifs.Body.List {
			if as, ok := st.(*ast.AssignStmt); ok && as.Tok == token.DEFINE {
				for _, l := range as.Lhs {
					if id, ok := l.(*ast.Ident); ok && declared[id.Name] {
						hasDeferOrClash = true
					}
				}
			}
			if _, ok := st.(*ast.DeclStmt); ok {
				hasDeferOrClash = true
			}
		}
		if hasDeferOrClash {
			continue
		}
		body := string(src[off(ifs.Body.Lbrace)+1 : off(ifs.Body.Rbrace)])
		es = append(es, tedit{off(ifs.Pos()), off(ifs.End()), "if !(" + text(ifs.Cond) + ") {\nreturn\n}\n" + body})
	}
	return es
}

// errSplit: `if v := f(…); cond { … }` (no else) -> `v := f(…)` + `if cond { … }` where the name is not yet
// declared in the enclosing block and not used after the if in that block.
func errSplit(p *packages.Package, f *ast.File, src []byte, off func(token.Pos) int) []tedit {
	var es []tedit
	text := func(n ast.Node) string { return string(src[off(n.Pos()):off(n.End())]) }
	blocks(f, func(list []ast.Stmt) {
		declared := map[string]bool{}
		for i, st := range list {
			if as, ok := st.(*ast.AssignStmt); ok && as.Tok == token.DEFINE {
				for _, l := range as.Lhs {
					if id, ok := l.(*ast.Ident); ok {
						declared[id.Name] = true
					}
				}
			}
			if ds, ok := st.(*ast.DeclStmt); ok {
				if gd, ok := ds.Decl.(*ast.GenDecl); ok {
					for _, sp := range gd.Specs {
						if vs, ok := sp.(*ast.ValueSpec); ok {
							for _, nm := range vs.Names {
								declared[nm.Name] = true
							}
						}
					}
				}
			}
			ifs, ok := st.(*ast.IfStmt)
			if !ok || ifs.Init == nil || ifs.Else != nil {
				continue
			}
			as, ok := ifs.Init.(*ast.AssignStmt)
			if !ok || as.Tok != token.DEFINE {
				continue
			}
			clash := false
			names := map[string]bool{}
			for _, l := range as.Lhs {
				if id, ok := l.(*ast.Ident); ok {
					if id.Name != "_" && declared[id.Name] {
						clash = true
					}
					names[id.Name] = true
				}
			}
			// later statements of the block must not mention the names (they would bind differently),
			// nor declare them
			for _, later := range list[i+1:] {
				ast.Inspect(later, func(z ast.Node) bool {
					if zi, ok := z.(*ast.Ident); ok && names[zi.Name] {
						clash = true
					}
					return true
				})
			}
			// parameters / results with the same name at function level would make := a redeclaration only in
			// the function's outermost block: the compiler tells, the run script then fails; avoid by checking scope
			if sc := p.Types.Scope().Innermost(ifs.Pos()); sc != nil {
				for nm := range names {
					if nm == "_" {
						continue
					}
					if _, o := sc.LookupParent(nm, ifs.Pos()); o != nil {
						if _, isVar := o.(*types.Var); isVar && o.Parent() != p.Types.Scope() {
							// an outer variable of that name exists: closures or defers may read it; leave
							clash = true
						}
					}
				}
			}
			if clash {
				continue
			}
			for nm := range names {
				declared[nm] = true
			}
			es = append(es, tedit{off(ifs.Pos()), off(ifs.Cond.Pos()), text(as) + "\nif "})
		}
	})
	return es
}

// whileLoop: `for i := a; cond; i++ { B }` with no continue in B (outside nested loops) ->
// `i := a` + `for cond { B; i++ }`, wrapped in a block to keep the scope of i.
func whileLoop(p *packages.Package, f *ast.File, src []byte, off func(token.Pos) int) []tedit {
	var es []tedit
	text := func(n ast.Node) string { return string(src[off(n.Pos()):off(n.End())]) }
	ast.Inspect(f, func(n ast.Node) bool {
		fs, ok := n.(*ast.ForStmt)
		if !ok || fs.Init == nil || fs.Cond == nil || fs.Post == nil {
			return true
		}
		hasContinue := false
		ast.Inspect(fs.Body, func(z ast.Node) bool {
			switch y := z.(type) {
			case *ast.ForStmt, *ast.RangeStmt, *ast.FuncLit:
				return false
			case *ast.BranchStmt:
				if y.Tok == token.CONTINUE || y.Label != nil {
					hasContinue = true
				}
			}
			return true
		})
		if hasContinue {
			return true
		}
		// closures capturing the loop variable would see a different variable per iteration only from Go 1.22
		body := string(src[off(fs.Body.Lbrace)+1 : off(fs.Body.Rbrace)])
		es = append(es, tedit{off(fs.Pos()), off(fs.End()), "{\n" + text(fs.Init) + "\nfor " + text(fs.Cond) + " {" + body + "\n" + text(fs.Post) + "\n}\n}"})
		return true
	})
	return es
}

// retVar: `return f(…)` where f(…) is a call (not a conversion / builtin) and is the only result expression
// -> `r1, r2 := f(…)` + `return r1, r2`.
func retVar(p *packages.Package, f *ast.File, src []byte, off func(token.Pos) int) []tedit {
	var es []tedit
	text := func(n ast.Node) string { return string(src[off(n.Pos()):off(n.End())]) }
	blocks(f, func(list []ast.Stmt) {
		for _, st := range list {
			rs, ok := st.(*ast.ReturnStmt)
			if !ok || len(rs.Results) != 1 {
				continue
			}
			call, ok := rs.Results[0].(*ast.CallExpr)
			if !ok {
				continue
			}
			if ftv, ok := p.TypesInfo.Types[call.Fun]; ok && (ftv.IsType() || ftv.IsBuiltin()) {
				continue
			}
			tv := p.TypesInfo.Types[call]
			n := 1
			if tup, ok := tv.Type.(*types.Tuple); ok {
				n = tup.Len()
			}
			var names []string
			for i := 0; i < n; i++ {
				serial++
				names = append(names, fmt.Sprintf("ret%d", serial))
			}
			es = append(es, tedit{off(rs.Pos()), off(rs.End()), strings.Join(names, ", ") + " := " + text(call) + "\nreturn " + strings.Join(names, ", ")})
		}
	})
	return es
}

// nameLit: a call statement / assignment / return whose call has a function literal argument ->
// `fnN := func…` first.
func nameLit(p *packages.Package, f *ast.File, src []byte, off func(token.Pos) int) []tedit {
	var es []tedit
	text := func(n ast.Node) string { return string(src[off(n.Pos()):off(n.End())]) }
	blocks(f, func(list []ast.Stmt) {
		for _, st := range list {
			var call *ast.CallExpr
			switch y := st.(type) {
			case *ast.ExprStmt:
				call, _ = y.X.(*ast.CallExpr)
			case *ast.AssignStmt:
				if len(y.Rhs) == 1 {
					call, _ = y.Rhs[0].(*ast.CallExpr)
				}
			case *ast.ReturnStmt:
				if len(y.Results) == 1 {
					call, _ = y.Results[0].(*ast.CallExpr)
				}
			case *ast.IfStmt:
				if as, ok := y.Init.(*ast.AssignStmt); ok && len(as.Rhs) == 1 {
					call, _ = as.Rhs[0].(*ast.CallExpr)
				}
			}
			if call == nil {
				continue
			}
			for _, a := range call.Args {
				lit, ok := a.(*ast.FuncLit)
				if !ok {
					continue
				}
				serial++
				name := fmt.Sprintf("fn%d", serial)
				es = append(es, tedit{off(st.Pos()), off(st.Pos()), name + " := " + text(lit) + "\n"},
					tedit{off(lit.Pos()), off(lit.End()), name})
				break
			}
		}
	})
	return es
}

// addElse: `if c { …; return … }` followed by one to three statements that end the enclosing function body
// with a return -> `if c { … } else { rest }` is only legal when the function has no results or rest ends in
// return; the rest is moved into an else block.
func addElse(p *packages.Package, f *ast.File, src []byte, off func(token.Pos) int) []tedit {
	var es []tedit
	for _, d := range f.Decls {
		fd, ok := d.(*ast.FuncDecl)
		if !ok || fd.Body == nil {
			continue
		}
		list := fd.Body.List
		for i := len(list) - 2; i >= 0 && i >= len(list)-4; i-- {
			ifs, ok := list[i].(*ast.IfStmt)
			if !ok || ifs.Else != nil || ifs.Init != nil || len(ifs.Body.List) == 0 {
				continue
			}
			if _, isRet := ifs.Body.List[len(ifs.Body.List)-1].(*ast.ReturnStmt); !isRet {
				continue
			}
			if _, isRet := list[len(list)-1].(*ast.ReturnStmt); !isRet {
				continue
			}
			rest := string(src[off(ifs.End()):off(fd.Body.Rbrace)])
			es = append(es, tedit{off(ifs.End()), off(fd.Body.Rbrace), " else {" + rest + "}\n"})
			break
		}
	}
	return es
}

// fieldInit: `x := T{A: a, B: b}` / `x := &T{…}` (keyed struct literal, statement of its own) ->
// `x := T{}` followed by `x.A = a`, `x.B = b` in the same order.
func fieldInit(p *packages.Package, f *ast.File, src []byte, off func(token.Pos) int) []tedit {
	var es []tedit
	text := func(n ast.Node) string { return string(src[off(n.Pos()):off(n.End())]) }
	blocks(f, func(list []ast.Stmt) {
		for _, st := range list {
			as, ok := st.(*ast.AssignStmt)
			if !ok || as.Tok != token.DEFINE || len(as.Lhs) != 1 || len(as.Rhs) != 1 {
				continue
			}
			id, ok := as.Lhs[0].(*ast.Ident)
			if !ok || id.Name == "_" {
				continue
			}
			e := as.Rhs[0]
			amp := ""
			if u, ok := e.(*ast.UnaryExpr); ok && u.Op == token.AND {
				e = u.X
				amp = "&"
			}
			lit, ok := e.(*ast.CompositeLit)
			if !ok || lit.Type == nil || len(lit.Elts) == 0 {
				continue
			}
			t := p.TypesInfo.TypeOf(lit)
			if t == nil {
				continue
			}
			if _, isStruct := t.Underlying().(*types.Struct); !isStruct {
				continue
			}
			var lines []string
			keyed := true
			for _, el := range lit.Elts {
				kv, ok := el.(*ast.KeyValueExpr)
				if !ok {
					keyed = false
					break
				}
				// the value must not mention x itself
				mention := false
				ast.Inspect(kv.Value, func(z ast.Node) bool {
					if zi, ok := z.(*ast.Ident); ok && zi.Name == id.Name {
						mention = true
					}
					return true
				})
				if mention {
					keyed = false
					break
				}
				lines = append(lines, id.Name+"."+text(kv.Key)+" = "+text(kv.Value))
			}
			if !keyed {
				continue
			}
			es = append(es, tedit{off(as.Pos()), off(as.End()), id.Name + " := " + amp + text(lit.Type) + "{}\n" + strings.Join(lines, "\n")})
		}
	})
	return es
}

// nestIf: `if a && b { X }` (no init, no else) -> `if a { if b { X } }`.
func nestIf(p *packages.Package, f *ast.File, src []byte, off func(token.Pos) int) []tedit {
	var es []tedit
	text := func(n ast.Node) string { return string(src[off(n.Pos()):off(n.End())]) }
	blocks(f, func(list []ast.Stmt) {
		for _, st := range list {
			ifs, ok := st.(*ast.IfStmt)
			if !ok || ifs.Init != nil || ifs.Else != nil {
				continue
			}
			be, ok := ifs.Cond.(*ast.BinaryExpr)
			if !ok || be.Op != token.LAND {
				continue
			}
			es = append(es, tedit{off(ifs.Pos()), off(ifs.Body.Lbrace), "if " + text(be.X) + " {\nif " + text(be.Y) + " "},
				tedit{off(ifs.Body.Rbrace), off(ifs.Body.Rbrace) + 1, "}\n}"})
		}
	})
	return es
}

// earlyContinue: a loop body whose last statement is `if c { A }` (no init, no else, A declares nothing that
// clashes) -> `if !(c) { continue }` followed by A.
func earlyContinue(p *packages.Package, f *ast.File, src []byte, off func(token.Pos) int) []tedit {
	var es []tedit
	text := func(n ast.Node) string { return string(src[off(n.Pos()):off(n.End())]) }
	ast.Inspect(f, func(n ast.Node) bool {
		var body *ast.BlockStmt
		switch l := n.(type) {
		case *ast.ForStmt:
			body = l.Body
		case *ast.RangeStmt:
			body = l.Body
		default:
			return true
		}
		if len(body.List) == 0 {
			return true
		}
		ifs, ok := body.List[len(body.List)-1].(*ast.IfStmt)
		if !ok || ifs.Init != nil || ifs.Else != nil || len(ifs.Body.List) < 2 {
			return true
		}
		declared := map[string]bool{}
		for _, st := range body.List[:len(body.List)-1] {
			if as, ok := st.(*ast.AssignStmt); ok && as.Tok == token.DEFINE {
				for _, l := range as.Lhs {
					if id, ok := l.(*ast.Ident); ok {
						declared[id.Name] = true
					}
				}
			}
		}
		for _, st := range ifs.Body.List {
			if as, ok := st.(*ast.AssignStmt); ok && as.Tok == token.DEFINE {
				for _, l := range as.Lhs {
					if id, ok := l.(*ast.Ident); ok && declared[id.Name] {
						return true
					}
				}
			}
			if _, ok := st.(*ast.DeclStmt); ok {
				return true
			}
		}
		inner := string(src[off(ifs.Body.Lbrace)+1 : off(ifs.Body.Rbrace)])
		es = append(es, tedit{off(ifs.Pos()), off(ifs.End()), "if !(" + text(ifs.Cond) + ") {\ncontinue\n}\n" + inner})
		return true
	})
	return es
}
