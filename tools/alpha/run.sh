#!/bin/bash
# usage: tools/alpha/run.sh <mode> <out.diff>   — applies one mechanical rewrite to a scratch worktree of /repo,
# builds it, runs the suite, and writes the patch. The worktree is removed afterwards.
export GOFLAGS=-mod=mod GOPROXY=off GOSUMDB=off GOTOOLCHAIN=local; unset GOWORK
mode=$1; out=$2
wt=/tmp/alphawt-$$
git -C /repo worktree add --detach $wt HEAD >/dev/null 2>&1 || exit 3
/tmp/alpha $wt $mode | awk '{n+=$2} END {print "sites:", n}'
(cd $wt && gofmt -l -w . >/dev/null; go build ./... && go vet ./... >/dev/null 2>&1; go test -count=1 ./... 2>&1 | tail -8)
git -C $wt diff > $out
wc -l $out
git -C /repo worktree remove --force $wt
