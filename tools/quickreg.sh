#!/bin/bash
# usage: tools/quickreg.sh [Cxx ...] — false-alarm regression after a rule change: every behaviour-preserving and feature
# patch against the named properties, streaming (one line per patch that is not quiet). Nothing is executed.
cd /verif
one() { # dir property
  out=$(bin/mkdbcheck -property $2 -no-evidence -patch $1/patch.diff 2>&1)
  if echo "$out" | grep -q '^VIOLATION'; then echo "$(basename $1) $2 VIOL $(echo "$out" | grep -E '^C[0-9]+\.[0-9a-z]+ ' | cut -d' ' -f1 | sort -u | tr '\n' ' ')"; elif echo "$out" | grep -q '^UNDECIDED'; then echo "$(basename $1) $2 UNDEC"; elif echo "$out" | grep -qE "^patch:|^panic:|^load error"; then echo "$(basename $1) $2 ERROR"; fi
}
export -f one
for p in ${@:-$(seq -f 'C%02g' 1 20)}; do
  ls -d benign/*/ features/*/ | sed 's|/$||' | xargs -P 15 -I{} bash -c "one {} $p"
  echo "DONE $p"
done
