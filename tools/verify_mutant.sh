#!/bin/bash
# usage: tools/verify_mutant.sh seeded/<name>   — confirms in a scratch copy of /repo HEAD that the patch applies, builds,
# passes the existing suite, that the demo fails with it and passes without it. Writes <dir>/verify.json. Removes the copy.
export GOFLAGS=-mod=mod GOPROXY=off GOSUMDB=off GOTOOLCHAIN=local; unset GOWORK
d=$(cd "$1" && pwd); n=$(basename $d)
S=$(mktemp -d /tmp/vm-$n.XXXX)
trap 'rm -rf $S' EXIT
(cd /repo && git archive HEAD) | tar -xf - -C $S
cd $S
res() { python3 - "$d" "$@" <<'PY'
import json,sys
d=sys.argv[1]; kv=dict(a.split('=',1) for a in sys.argv[2:])
json.dump(kv,open(d+'/verify.json','w'),indent=1)
PY
}
if ! git apply --whitespace=nowarn $d/patch.diff 2>/tmp/vm-$n.err; then res applies=no detail="$(head -c 300 /tmp/vm-$n.err)"; echo "$n STALE"; exit 0; fi
if ! go build ./... 2>/dev/null; then res applies=yes builds=no; echo "$n NOBUILD"; exit 0; fi
suite=$(go test -vet=off -count=1 ./... 2>&1 | grep -c "^FAIL")
demo=$(ls $d/demo*_test.go $d/demo_test.go 2>/dev/null | head -1)
if [ -z "$demo" ]; then res applies=yes builds=yes suite_fail_lines=$suite demo=missing; echo "$n NODEMO"; exit 0; fi
pkg=$(grep -m1 '^package ' $demo | awk '{print $2}')
case "$pkg" in
 engine) dir=engine;; storage) dir=storage;; sql) dir=sql;;
 main) case $n in C19*) dir=cmd/csvimport;; *) dir=cmd/console;; esac;;
 *) dir=$pkg;;
esac
tests=$(grep -oE '^func (Test[A-Za-z0-9_]+)' $demo | awk '{print $2}' | paste -sd'|')
cp $demo $dir/zz_mutdemo_test.go
RACEFLAG=""; [ -n "$RACE" ] && RACEFLAG="-race"
with=$(timeout 600 go test $RACEFLAG -vet=off -count=1 -run "^($tests)\$" ./$dir/ 2>&1 | tail -3 | grep -cE "^(FAIL|panic|fatal)" )
withexit=$?
git apply -R --whitespace=nowarn $d/patch.diff
without=$(timeout 600 go test $RACEFLAG -vet=off -count=1 -run "^($tests)\$" ./$dir/ 2>&1 | tail -3 | grep -cE "^ok" )
ok=no; [ "$suite" = "0" ] && [ "$with" != "0" ] && [ "$without" != "0" ] && ok=yes
res applies=yes builds=yes suite_fail_lines=$suite demo_pkg=$dir demo_tests="$tests" demo_fails_with_patch=$([ "$with" != "0" ] && echo yes || echo no) demo_passes_without=$([ "$without" != "0" ] && echo yes || echo no) confirmed=$ok repo_head=$(cd /repo && git rev-parse --short HEAD)
echo "$n confirmed=$ok suite_fail=$suite with=$with without=$without"
