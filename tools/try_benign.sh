#!/bin/bash
# usage: tools/try_benign.sh [glob]  — runs every property's check on each behaviour-preserving patch; prints anything that is not HOLDS
cd /verif
for d in benign/${1:-*}/; do
  n=$(basename $d)
  out=$(bin/mkdbcheck -property all -no-evidence -patch $d/patch.diff 2>&1)
  v=$(echo "$out" | grep -c '^VIOLATION'); u=$(echo "$out" | grep -c '^UNDECIDED')
  echo "$n violations=$v undecided=$u"
  echo "$out" | grep -E '^UNDECIDED|^C[0-9]+\.[0-9a-z]+ ' | cut -c1-230 | sort -u -k1,1 -k2,2 | head -${2:-6} | sed 's/^/     /'
done
