#!/bin/bash
# usage: tools/collect_round.sh <round> Cxx ...  — copy a finished author's output of that round into seeded/ and confirm each change
cd /verif
R=$1; shift
for p in "$@"; do
  for k in 1 2 3 4; do
    src=/tmp/r$R/$p/out/m$k; dst=seeded/$p-r${R}m$k
    [ -f $src/patch.diff ] || { echo "$p m$k: no patch"; continue; }
    mkdir -p $dst; cp $src/patch.diff $src/README.md $dst/ 2>/dev/null
    cp $src/demo_test.go $dst/demo_test.go 2>/dev/null || cp $src/demo*_test.go $dst/ 2>/dev/null
    tools/verify_mutant.sh $dst
  done
done
