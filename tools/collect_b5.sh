#!/bin/bash
# usage: tools/collect_b5.sh E01 ...  — campaign 5: /tmp/b5/<area>/out/bK -> /verif/benign/<area>-r5bK after confirming
# on a scratch copy of /repo HEAD that the patch applies, builds and passes the whole suite.
export GOFLAGS=-mod=mod GOPROXY=off GOSUMDB=off GOTOOLCHAIN=local; unset GOWORK
for a in "$@"; do
  for d in /tmp/b5/$a/out/b*/; do
    k=$(basename $d); t=/verif/benign/$a-r5$k
    [ -f $d/patch.diff ] || continue
    S=$(mktemp -d /tmp/vb-$a$k.XXXX); (cd /repo && git archive HEAD) | tar -xf - -C $S
    ok=yes
    (cd $S && git apply --whitespace=nowarn $d/patch.diff 2>/dev/null) || ok=noapply
    [ $ok = yes ] && { (cd $S && go build ./... 2>/dev/null) || ok=nobuild; }
    [ $ok = yes ] && { n=$(cd $S && go test -vet=off -count=1 ./... 2>&1 | grep -c '^FAIL'); [ "$n" = 0 ] || ok=suitefails; }
    rm -rf $S
    echo "$a-r5$k $ok"
    [ $ok = yes ] && { mkdir -p $t; cp $d/patch.diff $t/; cp $d/README.md $t/ 2>/dev/null; }
  done
done
