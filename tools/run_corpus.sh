#!/bin/bash
# usage: tools/run_corpus.sh <glob of dirs under /verif> — all properties on every patch, 8 in parallel; prints rule-level reports
cd /verif
ls -d $1 | xargs -P 8 -I{} sh -c 'd={}; n=$(basename $d); out=$(bin/mkdbcheck -property all -no-evidence -patch $d/patch.diff 2>&1); echo "$out" | grep -E "^C[0-9]+\.[0-9a-z]+ " | sed "s/ at .*//" | sort -u | sed "s/^/$n VIOL /"; echo "$out" | grep "^UNDECIDED" | sed "s/UNDECIDED property=C[0-9]* //; s/: .*//" | sort -u | sed "s/^/$n UNDEC /"; echo "$out" | grep -E "^patch:|^panic|load error" | head -2 | sed "s/^/$n ERROR /"' | sort
