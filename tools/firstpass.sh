#!/bin/bash
# usage: tools/firstpass.sh <binary> <glob>   — which properties report each seeded change (all properties, one load per patch)
cd /verif
B=$1
ls -d $2 | xargs -P 8 -I{} sh -c 'd={}; n=$(basename $d); own=${n%%-*}; out=$('$B' -property all -no-evidence -patch $d/patch.diff 2>&1); v=$(echo "$out" | grep "^VIOLATION" | sed "s/VIOLATION property=\([A-Z0-9]*\).*/\1/" | sort -u | tr "\n" " "); u=$(echo "$out" | grep "^UNDECIDED" | sed "s/UNDECIDED property=\([A-Z0-9]*\).*/\1/" | sort -u | tr "\n" " "); case " $v" in *" $own "*) o=OWN;; *) if [ -n "$v" ]; then o=other; else o=MISS; fi;; esac; echo "$n $o V:[$v] U:[$u]"' | sort
