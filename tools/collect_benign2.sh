#!/bin/bash
# usage: tools/collect_benign2.sh A01 ...  — round 2: /tmp/wtc/<area>/out/b*/ -> /verif/benign/<area>-r2bK/
for a in "$@"; do
  for d in /tmp/wtc/$a/out/b*/; do
    k=$(basename $d); t=/verif/benign/$a-r2$k
    [ -f $d/patch.diff ] || continue
    mkdir -p $t; cp $d/patch.diff $t/; cp $d/README.md $t/ 2>/dev/null
  done
done
ls /verif/benign | wc -l
