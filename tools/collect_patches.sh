#!/bin/bash
# usage: tools/collect_patches.sh <srcroot> <dstdir> <tag> ID...   e.g. tools/collect_patches.sh /tmp/b6 benign r6 G01 G02
#   copies <srcroot>/<ID>/out/bK/{patch.diff,README.md[,feature_test.go]} to /verif/<dstdir>/<ID>-<tag>bK after confirming on a
#   scratch copy of /repo HEAD that the patch applies, builds and passes the whole suite (plus the feature's own tests).
export GOFLAGS=-mod=mod GOPROXY=off GOSUMDB=off GOTOOLCHAIN=local; unset GOWORK
src=$1; dst=$2; tag=$3; shift 3
for a in "$@"; do
  for d in $src/$a/out/b*/; do
    k=$(basename $d); t=/verif/$dst/$a-$tag$k; [ "$tag" = "-" ] && t=/verif/$dst/$a-$k
    [ -f $d/patch.diff ] || continue
    S=$(mktemp -d /tmp/vb-$a$k.XXXX); (cd /repo && git archive HEAD) | tar -xf - -C $S
    ok=yes
    (cd $S && git apply --whitespace=nowarn $d/patch.diff 2>/dev/null) || ok=noapply
    if [ $ok = yes ] && [ -f $d/feature_test.go ]; then
      pkg=$(grep -m1 '^package ' $d/feature_test.go | awk '{print $2}')
      case "$pkg" in engine|storage|sql) dir=$pkg;; main) if grep -q csv $d/README.md $d/feature_test.go 2>/dev/null && ! grep -qi 'console\|terminal' $d/feature_test.go; then dir=cmd/csvimport; else dir=cmd/console; fi;; *) dir=$pkg;; esac
      cp $d/feature_test.go $S/$dir/zz_feature_test.go
    fi
    [ $ok = yes ] && { (cd $S && go build ./... 2>/dev/null) || ok=nobuild; }
    [ $ok = yes ] && { n=$(cd $S && go test -vet=off -count=1 ./... 2>&1 | grep -c '^FAIL'); [ "$n" = 0 ] || ok=suitefails; }
    rm -rf $S
    echo "$(basename $t) $ok"
    [ $ok = yes ] && { mkdir -p $t; cp $d/patch.diff $t/; cp $d/README.md $t/ 2>/dev/null; cp $d/feature_test.go $t/ 2>/dev/null; }
  done
done
