#!/bin/bash
# usage: tools/collect_benign.sh A01 ...  — copies ${WTB:-/tmp/wtb}/<area>/out/b*/ into /verif/benign/<area>-bK/
for a in "$@"; do
  for d in ${WTB:-/tmp/wtb}/$a/out/b*/; do
    k=$(basename $d); t=/verif/benign/$a-$k
    [ -f $d/patch.diff ] || continue
    mkdir -p $t; cp $d/patch.diff $t/; cp $d/README.md $t/ 2>/dev/null
  done
done
ls /verif/benign | wc -l
