#!/bin/sh
# Assemble /verif/DESIGN.md: hand-written head and tail around the rule texts printed by the checker.
cd "$(dirname "$0")/.." || exit 1
{ cat tools/design_head.md; bin/mkdbcheck -property all -rules 2>/dev/null; echo; cat tools/design_tail.md; } > DESIGN.md
wc -l DESIGN.md
