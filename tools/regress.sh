#!/bin/bash
# usage: tools/regress.sh [Cxx ...]   — quick regression of the checker itself after a rule change.
#  (1) every seeded change and reverted fix that targets the property must be reported by that property's check;
#  (2) no behaviour-preserving or feature patch may raise a violation for that property (undecided ones are counted).
# Patches are analysed on scratch copies, 12 at a time; nothing is executed.
cd /verif
props=${@:-$(seq -f 'C%02g' 1 20)}
one() { # dir property
  out=$(bin/mkdbcheck -property $2 -no-evidence -patch $1/patch.diff 2>&1)
  if echo "$out" | grep -q '^VIOLATION'; then echo "$(basename $1) $2 VIOL"; elif echo "$out" | grep -q '^UNDECIDED'; then echo "$(basename $1) $2 UNDEC"; elif echo "$out" | grep -qE "^patch:|^panic:|^load error"; then echo "$(basename $1) $2 ERROR"; else echo "$(basename $1) $2 quiet"; fi
}
export -f one
for p in $props; do
  ls -d seeded/$p-* seeded-fix-reverts/*$p* 2>/dev/null | xargs -P 12 -I{} bash -c "one {} $p" | grep -v ' VIOL$' | sed 's/^/MISSED-SEEDED /'
  ls -d benign/*/ features/*/ extra-benign/*/ 2>/dev/null | sed 's|/$||' | xargs -P 12 -I{} bash -c "one {} $p" | grep -v ' quiet$' | sed 's/^/NOT-QUIET /'
done | sort
