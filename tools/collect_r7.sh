#!/bin/bash
# usage: tools/collect_r7.sh Cxx ...  — copy a finished round-7 author's output into seeded/ and confirm each change
cd /verif
for p in "$@"; do
  for k in 1 2 3; do
    src=/tmp/r7/$p/out/m$k; dst=seeded/$p-r7m$k
    [ -f $src/patch.diff ] || { echo "$p m$k: no patch"; continue; }
    mkdir -p $dst; cp $src/patch.diff $src/README.md $dst/ 2>/dev/null
    cp $src/demo_test.go $dst/demo_test.go 2>/dev/null || cp $src/demo*_test.go $dst/ 2>/dev/null
    tools/verify_mutant.sh $dst
  done
done
