package engine

import (
	"encoding/binary"
	"fmt"
	"os"
	"os/exec"
	"testing"
	"time"

	"github.com/mk6i/mkdb/storage"
)

// D18 (C03): an INSERT that splits the table's root logs TWO records for one row operation — the insert and the
// page-table update that records the new root — with two separate writes. A crash between them leaves the insert in
// the log without the root move: recovery redoes the split in memory, the catalog keeps pointing at the old root (now
// the left leaf), and the statements that follow do not behave as on an uncrashed database.
func TestD18CrashBetweenTheTwoRecordsOfARootSplit(t *testing.T) {
	zzChdir(t)
	s := &Session{}
	zzExec(t, s, "create database d18")
	zzExec(t, s, "use d18")
	zzExec(t, s, "create table t (a int)")
	for i := 1; i <= 8; i++ {
		zzExec(t, s, fmt.Sprintf("insert into t (a) values (%d)", i))
	}
	time.Sleep(350 * time.Millisecond) // everything so far is on disk
	img := t.TempDir()
	if out, err := exec.Command("cp", "-r", "data", img+"/data").CombinedOutput(); err != nil {
		t.Fatalf("cp: %v %s", err, out)
	}
	before, err := os.Stat("data/d18/wal")
	if err != nil {
		t.Fatal(err)
	}
	zzExec(t, s, "insert into t (a) values (9)") // splits the root: insert record + page-table record
	wal, err := os.ReadFile("data/d18/wal")
	if err != nil {
		t.Fatal(err)
	}
	s0 := before.Size()
	len1 := int64(binary.LittleEndian.Uint32(wal[s0 : s0+4]))
	cut := s0 + 4 + len1
	if cut >= int64(len(wal)) {
		t.Skip("the statement logged one record only: no root split happened")
	}
	// the crash image: the data file as before the statement, the log cut after the statement's first record
	if err := os.WriteFile(img+"/data/d18/wal", wal[:cut], 0644); err != nil {
		t.Fatal(err)
	}
	s.Close()
	if err := os.Chdir(img); err != nil {
		t.Fatal(err)
	}
	if err := storage.InitStorage(); err != nil {
		t.Fatalf("recovery failed: %v", err)
	}
	s2 := &Session{}
	defer s2.Close()
	zzExec(t, s2, "use d18")
	// the prefix state: rows 1..9 (the row operation's insert record is in the log)
	got := zzQuery(t, s2, "select a from t")
	if fmt.Sprint(got) != "[1 2 3 4 5 6 7 8 9]" {
		t.Fatalf("after recovery want [1 2 3 4 5 6 7 8 9], got %v", got)
	}
	// later statements must behave as on an uncrashed database in that state
	for i := 10; i <= 12; i++ {
		zzExec(t, s2, fmt.Sprintf("insert into t (a) values (%d)", i))
	}
	got = zzQuery(t, s2, "select a from t")
	if fmt.Sprint(got) != "[1 2 3 4 5 6 7 8 9 10 11 12]" {
		t.Fatalf("after recovery and three more inserts want [1 .. 12] in order, got %v", got)
	}
}
