package engine

import (
	"fmt"
	"testing"
)

// D1 (C01/C11): a leaf split drops tombstones of the cells it moves.
func TestD01SplitResurrectsDeletedRows(t *testing.T) {
	zzChdir(t)
	s := &Session{}
	defer s.Close()
	zzExec(t, s, "create database d1")
	zzExec(t, s, "use d1")
	zzExec(t, s, "create table t (a int)")
	for i := 1; i <= 6; i++ {
		zzExec(t, s, fmt.Sprintf("insert into t (a) values (%d)", i))
	}
	zzExec(t, s, "delete from t where a = 5")
	zzExec(t, s, "delete from t where a = 6")
	for i := 7; i <= 12; i++ {
		zzExec(t, s, fmt.Sprintf("insert into t (a) values (%d)", i))
	}
	got := zzQuery(t, s, "select a from t")
	for _, v := range got {
		if v == "5" || v == "6" {
			t.Fatalf("deleted row came back: %v", got)
		}
	}
	if len(got) != 10 {
		t.Fatalf("want 10 rows, got %v", got)
	}
}
