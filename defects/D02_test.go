package engine

import (
	"os"
	"os/exec"
	"testing"
	"time"

	"github.com/mk6i/mkdb/storage"
)

// zzCrash copies ./data as it is on disk right now into a fresh directory,
// moves there and runs recovery: the state a process would find after being
// killed at this moment (the log is fsynced per record).
func zzCrash(t *testing.T) {
	t.Helper()
	dir := t.TempDir()
	if out, err := exec.Command("cp", "-r", "data", dir+"/data").CombinedOutput(); err != nil {
		t.Fatalf("cp: %v %s", err, out)
	}
	if err := os.Chdir(dir); err != nil {
		t.Fatal(err)
	}
	if err := storage.InitStorage(); err != nil {
		t.Fatalf("recovery failed: %v", err)
	}
}

// D2 (C02): DELETE does not take a fresh LSN. Delete A, let the flusher write
// the page, delete B on the same page, crash: B's record has the LSN the page
// already carries and redo skips it.
func TestD02DeleteReusesLSN(t *testing.T) {
	zzChdir(t)
	s := &Session{}
	zzExec(t, s, "create database d2")
	zzExec(t, s, "use d2")
	zzExec(t, s, "create table t (a int)")
	zzExec(t, s, "insert into t (a) values (1),(2),(3)")
	zzExec(t, s, "delete from t where a = 1")
	time.Sleep(350 * time.Millisecond) // background flush
	zzExec(t, s, "delete from t where a = 2")
	zzCrash(t)
	s2 := &Session{}
	defer s2.Close()
	zzExec(t, s2, "use d2")
	got := zzQuery(t, s2, "select a from t")
	if len(got) != 1 || got[0] != "3" {
		t.Fatalf("after recovery want [3], got %v", got)
	}
}

// D3 (C02): redo of an UPDATE record decodes the payload with the catalog
// schema and aborts recovery.
func TestD03ReplayOfUserTableUpdate(t *testing.T) {
	zzChdir(t)
	s := &Session{}
	zzExec(t, s, "create database d3")
	zzExec(t, s, "use d3")
	zzExec(t, s, "create table t (a int)")
	zzExec(t, s, "insert into t (a) values (1),(2),(3)")
	time.Sleep(350 * time.Millisecond)
	zzExec(t, s, "update t set a = 7 where a = 2")
	zzCrash(t)
	s2 := &Session{}
	defer s2.Close()
	zzExec(t, s2, "use d3")
	got := zzQuery(t, s2, "select a from t")
	if len(got) != 3 || got[1] != "7" {
		t.Fatalf("after recovery want [1 7 3], got %v", got)
	}
}
