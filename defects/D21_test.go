package engine

import (
	"testing"
)

// D21 (C18): the catalog tables sys_pages / sys_schema are ordinary tables for INSERT, UPDATE and DELETE. A row a
// user writes there is later read by the storage layer with unchecked assumptions (non-NULL string / int columns,
// a file offset that is a page): the next statement on the named table panics.
func TestD21UserRowInSchemaCatalog(t *testing.T) {
	zzChdir(t)
	s := &Session{}
	defer s.Close()
	zzExec(t, s, "create database d21")
	zzExec(t, s, "use d21")
	zzExec(t, s, "create table t (v int)")
	defer func() {
		if r := recover(); r != nil {
			t.Errorf("panic after a user row in sys_schema: %v", r)
		}
	}()
	if err := s.ExecQuery("insert into sys_schema (table_name) values ('t')"); err != nil {
		return // refused: fine
	}
	_ = s.ExecQuery("select * from t")
}

func TestD21UserUpdateOfPageCatalog(t *testing.T) {
	zzChdir(t)
	s := &Session{}
	defer s.Close()
	zzExec(t, s, "create database d21b")
	zzExec(t, s, "use d21b")
	zzExec(t, s, "create table u (v int)")
	zzExec(t, s, "insert into u (v) values (1)")
	defer func() {
		if r := recover(); r != nil {
			t.Errorf("panic after a user update of sys_pages: %v", r)
		}
	}()
	if err := s.ExecQuery("update sys_pages set file_offset = 123 where table_name = 'u'"); err != nil {
		return // refused: fine
	}
	_ = s.ExecQuery("select * from u")
}
