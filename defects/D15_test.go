package engine

import (
	"fmt"
	"os"
	"os/exec"
	"testing"
	"time"

	"github.com/mk6i/mkdb/storage"
)

// D15 (C02/C03): recovery sets the LSN counter to "last logged LSN + 1" even when the header of the data file is
// ahead of the log — CREATE TABLE consumes LSNs (two catalog inserts that stamp the catalog pages) without logging
// anything. After a restart the counter is behind the stamps of the catalog pages; a logged page-table update (a
// root move) then carries an LSN that is not larger than the stamp of the page it changes, and redo skips it after a
// crash: the table's root pointer stays on the old root and every row that moved to the new sibling is lost.
func TestD15RecoveryMovesLSNBackwards(t *testing.T) {
	zzChdir(t)
	s := &Session{}
	zzExec(t, s, "create database d15")
	zzExec(t, s, "use d15")
	zzExec(t, s, "create table t (a int)")
	for i := 1; i <= 8; i++ { // a leaf splits when it reaches 9 rows: the 9th insert splits the root
		zzExec(t, s, fmt.Sprintf("insert into t (a) values (%d)", i))
	}
	// unlogged LSN consumption: each CREATE TABLE stamps the catalog pages with two fresh LSNs
	zzExec(t, s, "create table u (a int)")
	zzExec(t, s, "create table v (a int)")
	zzExec(t, s, "create table w (a int)")
	time.Sleep(350 * time.Millisecond)
	s.Close()

	// clean restart: recovery reads the whole log and moves the counter back to last logged LSN + 1
	zzCrash(t)
	s2 := &Session{}
	zzExec(t, s2, "use d15")
	// crash image: the data file as it is before the statement, the log as it is after it
	img := t.TempDir()
	if out, err := exec.Command("cp", "-r", "data", img+"/data").CombinedOutput(); err != nil {
		t.Fatalf("cp: %v %s", err, out)
	}
	zzExec(t, s2, "insert into t (a) values (9)") // root split + logged page-table update; acknowledged
	if out, err := exec.Command("cp", "data/d15/wal", img+"/data/d15/wal").CombinedOutput(); err != nil {
		t.Fatalf("cp wal: %v %s", err, out)
	}
	if err := os.Chdir(img); err != nil {
		t.Fatal(err)
	}
	if err := storage.InitStorage(); err != nil {
		t.Fatalf("recovery failed: %v", err)
	}
	s3 := &Session{}
	defer s3.Close()
	zzExec(t, s3, "use d15")
	// a scan still finds all rows (it walks the sibling chain from the stale "root", now the left leaf) …
	got := zzQuery(t, s3, "select a from t")
	if len(got) != 9 {
		t.Fatalf("after recovery want 9 rows, got %d: %v", len(got), got)
	}
	// … but the table's root pointer was not redone: the next rows go into the left leaf
	for i := 10; i <= 12; i++ {
		zzExec(t, s3, fmt.Sprintf("insert into t (a) values (%d)", i))
	}
	got = zzQuery(t, s3, "select a from t")
	want := "[1 2 3 4 5 6 7 8 9 10 11 12]"
	if fmt.Sprint(got) != want {
		t.Fatalf("after recovery and three more inserts want %s, got %v", want, got)
	}
}
