package engine

import (
	"strings"
	"testing"
)

// D14 (C18): CREATE DATABASE with a name the file system refuses (longer than
// NAME_MAX) panicked in storage.CreateDB instead of returning the error.
func TestD14CreateDatabaseBadName(t *testing.T) {
	zzChdir(t)
	s := &Session{}
	defer s.Close()
	if err := zzNoPanic(t, s, "create database "+strings.Repeat("x", 300)); err == nil {
		t.Error("a 300 character database name was accepted")
	}
	zzExec(t, s, "create database ok1")
	zzExec(t, s, "use ok1")
}
