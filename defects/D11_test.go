package engine

import "testing"

func zzNoPanic(t *testing.T, s *Session, q string) (err error) {
	t.Helper()
	defer func() {
		if p := recover(); p != nil {
			t.Errorf("%s panicked: %v", q, p)
		}
	}()
	return s.ExecQuery(q)
}

// D11 (C18): statements that crashed the engine.
func TestD11EnginePanics(t *testing.T) {
	zzChdir(t)
	s := &Session{}
	defer s.Close()
	zzExec(t, s, "create database d11")
	zzExec(t, s, "use d11")
	zzExec(t, s, "create table t (a int, b varchar(10), c boolean)")
	zzExec(t, s, "insert into t (a, b, c) values (1, 'x', true)")
	zzExec(t, s, "insert into t (a, b) values (2, 'y')")
	zzExec(t, s, "insert into t (b, c) values ('z', false)")
	if err := zzNoPanic(t, s, "select avg(b) from t"); err == nil {
		t.Error("avg over a varchar column succeeded")
	}
	zzNoPanic(t, s, "select avg(a) from t")
	zzNoPanic(t, s, "select * from t order by a")
	zzNoPanic(t, s, "select * from t order by c desc, a")
	zzNoPanic(t, s, "select * from t order by a desc")
	got := zzQuery(t, s, "select a from t order by a")
	if len(got) != 3 || got[0] != "<nil>" || got[1] != "1" || got[2] != "2" {
		t.Errorf("order by a with a NULL: %v", got)
	}
}
