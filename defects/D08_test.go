package engine

import (
	"fmt"
	"testing"
	"time"
)

// D8 (C13): CREATE TABLE changed pages and the cache without holding the store
// lock while the 100 ms flusher iterates the cache. Only fails under
//   go test -race -run TestD08 ./engine/
func TestD08CreateTableRace(t *testing.T) {
	zzChdir(t)
	s := &Session{}
	defer s.Close()
	zzExec(t, s, "create database d8")
	zzExec(t, s, "use d8")
	end := time.Now().Add(1500 * time.Millisecond)
	for i := 0; time.Now().Before(end); i++ {
		zzExec(t, s, fmt.Sprintf("create table t%d (a int)", i))
	}
}
