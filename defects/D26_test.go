package engine

import (
	"fmt"
	"os"
	"os/exec"
	"testing"
	"time"

	"github.com/mk6i/mkdb/storage"
)

// D26 (C04): a flush that dies after its page writes and before the header write leaves the header's row-id counter
// behind the rows on disk. Redo skips the insert records of those rows (their pages carry the LSNs) — and raised the
// counter only for records it did not skip, so the first INSERT after recovery was refused with "record already
// exists". The crash image is built from the real files: the data file after the flush with the 28 header bytes of
// the data file before it.
func TestD26HeaderLostInFlush(t *testing.T) {
	zzChdir(t)
	s := &Session{}
	zzExec(t, s, "create database d26")
	zzExec(t, s, "use d26")
	zzExec(t, s, "create table t (a int)")
	zzExec(t, s, "insert into t (a) values (1)")
	time.Sleep(350 * time.Millisecond)
	before, err := os.ReadFile("data/d26/tbl")
	if err != nil {
		files, _ := os.ReadDir("data/d26")
		t.Fatalf("%v (have %v)", err, files)
	}
	zzExec(t, s, "insert into t (a) values (2)")
	zzExec(t, s, "insert into t (a) values (3)")
	time.Sleep(350 * time.Millisecond) // the flush writes the page and the header
	img := t.TempDir()
	if out, err := exec.Command("cp", "-r", "data", img+"/data").CombinedOutput(); err != nil {
		t.Fatalf("cp: %v %s", err, out)
	}
	after, err := os.ReadFile(img + "/data/d26/tbl")
	if err != nil {
		t.Fatal(err)
	}
	copy(after[:28], before[:28]) // the header write never happened
	if err := os.WriteFile(img+"/data/d26/tbl", after, 0644); err != nil {
		t.Fatal(err)
	}
	if err := os.Chdir(img); err != nil {
		t.Fatal(err)
	}
	if err := storage.InitStorage(); err != nil {
		t.Fatalf("recovery failed: %v", err)
	}
	s2 := &Session{}
	defer s2.Close()
	zzExec(t, s2, "use d26")
	if got := zzQuery(t, s2, "select a from t"); fmt.Sprint(got) != "[1 2 3]" {
		t.Fatalf("after recovery want [1 2 3], got %v", got)
	}
	if err := s2.ExecQuery("insert into t (a) values (4)"); err != nil {
		t.Fatalf("first INSERT after recovery: %v", err)
	}
}
