package main

import (
	"testing"

	"github.com/mk6i/mkdb/storage"
)

// D12 (C19): BIGINT destination columns were imported as NULL.
func TestD12BigIntColumn(t *testing.T) {
	cfg := importCfg{
		colTypes: []storage.DataType{storage.TypeBigInt, storage.TypeInt},
		srcCols:  []int{0, 1},
	}
	row, err := csvToSql(cfg, []string{"8589934592", "7"})
	if err != nil {
		t.Fatal(err)
	}
	if row[0] != int64(8589934592) || row[1] != int64(7) {
		t.Fatalf("got %#v", row)
	}
	if _, err := csvToSql(cfg, []string{"notanumber", "7"}); err == nil {
		t.Fatal("unparsable BIGINT accepted")
	}
}
