package engine

import (
	"testing"
	"time"
)

// D25 (C13): OpenRelation starts the flusher goroutine (newFileStore(path, true)) and only then reads the file header
// into the store's fields (fs.open()), without the store lock. The first tick reads those fields (save() writes the
// header) with no happens-before edge to the reads of open(): `go test -race` reports the race whenever a session
// stays idle across the first tick after USE. CreateDB initialises its store the same way.
// Run with: go test -race -run TestD25 ./engine/   (without -race the test only exercises the path)
func TestD25IdleAfterUse(t *testing.T) {
	zzChdir(t)
	s := &Session{}
	zzExec(t, s, "create database d25")
	zzExec(t, s, "use d25")
	zzExec(t, s, "create table t (a int)")
	s.Close()
	s2 := &Session{}
	defer s2.Close()
	zzExec(t, s2, "use d25")
	time.Sleep(250 * time.Millisecond) // two ticks, no statement
}
