package engine

import (
	"testing"
	"time"
)

// D10a (C17): a second USE abandoned the previous service, whose flush timer
// kept rewriting the file header from its stale copy.
func TestD10aSecondUseLeaksFlusher(t *testing.T) {
	zzChdir(t)
	s := &Session{}
	zzExec(t, s, "create database da")
	zzExec(t, s, "use da")
	zzExec(t, s, "create table t (a int)")
	zzExec(t, s, "insert into t (a) values (1)")
	zzExec(t, s, "use da")
	zzExec(t, s, "insert into t (a) values (2),(3)")
	time.Sleep(350 * time.Millisecond)
	if err := s.Close(); err != nil {
		t.Fatal(err)
	}
	time.Sleep(350 * time.Millisecond)
	zzCrash(t) // restart
	s2 := &Session{}
	defer s2.Close()
	zzExec(t, s2, "use da")
	zzExec(t, s2, "insert into t (a) values (4)")
	got := zzQuery(t, s2, "select a from t")
	if len(got) != 4 {
		t.Fatalf("want 4 rows, got %v", got)
	}
}

// D10b (C17/C18): a failed USE left the session pointing at a nil service.
func TestD10bFailedUse(t *testing.T) {
	zzChdir(t)
	s := &Session{}
	defer s.Close()
	zzExec(t, s, "create database db")
	zzExec(t, s, "use db")
	zzExec(t, s, "create table t (a int)")
	if err := s.ExecQuery("use nosuchdb"); err == nil {
		t.Fatal("USE of a missing database succeeded")
	}
	func() {
		defer func() {
			if p := recover(); p != nil {
				t.Fatalf("statement after failed USE panicked: %v", p)
			}
		}()
		if err := s.ExecQuery("insert into t (a) values (1)"); err != nil {
			t.Fatalf("session unusable after failed USE: %v", err)
		}
	}()
	s3 := &Session{}
	s3.ExecQuery("use nosuchdb")
	func() {
		defer func() {
			if p := recover(); p != nil {
				t.Fatalf("statement after failed first USE panicked: %v", p)
			}
		}()
		if err := s3.ExecQuery("select * from t"); err == nil {
			t.Fatal("select without database succeeded")
		}
	}()
}
