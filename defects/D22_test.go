package engine

import (
	"fmt"
	"strings"
	"testing"

	"github.com/mk6i/mkdb/sql"
)

// D22 (C05): projectColumns renames the *Field object of the source column in place when the select list gives it
// an alias. A column listed twice under two aliases shares one Field: both result columns carry the last alias.
func TestD22SameColumnTwoAliases(t *testing.T) {
	zzChdir(t)
	s := &Session{}
	defer s.Close()
	zzExec(t, s, "create database d22")
	zzExec(t, s, "use d22")
	zzExec(t, s, "create table t (a int, b int)")
	zzExec(t, s, "insert into t (a, b) values (1, 2)")
	stmt, err := parseSQL("select a as x, a as y, b from t")
	if err != nil {
		t.Fatal(err)
	}
	_, fields, err := EvaluateSelect(stmt.(sql.Select), s.RelationService)
	if err != nil {
		t.Fatal(err)
	}
	var names []string
	for _, f := range fields {
		names = append(names, fmt.Sprint(f.Column))
	}
	if got := strings.Join(names, ","); got != "x,y,b" {
		t.Errorf("header of `select a as x, a as y, b`: want x,y,b got %s", got)
	}
}
