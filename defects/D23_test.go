package engine

import (
	"fmt"
	"strings"
	"testing"
	"time"
)

// D23 (C02): BTree.insert advances the row-id counter (and the LSN counter) even when the insert is refused (a row
// larger than the cell limit). Redo counts one row id per replayed insert record, so after a crash the recovered
// counter is behind the ids already in the table by the number of refused inserts: the next INSERT is refused with
// "record already exists" — the recovered database does not keep working.
func TestD23RefusedInsertBurnsRowID(t *testing.T) {
	zzChdir(t)
	s := &Session{}
	zzExec(t, s, "create database d23")
	zzExec(t, s, "use d23")
	zzExec(t, s, "create table t (a int, b varchar(500))")
	zzExec(t, s, "insert into t (a, b) values (1, 'x')")
	time.Sleep(350 * time.Millisecond) // background flush: header and pages on disk
	if err := s.ExecQuery(fmt.Sprintf("insert into t (a, b) values (2, '%s')", strings.Repeat("y", 450))); err == nil {
		t.Fatal("the oversized row was accepted")
	}
	zzExec(t, s, "insert into t (a, b) values (3, 'z')") // acknowledged, only in the log
	zzCrash(t)                                            // crash before the next flush; recovery on the image
	s2 := &Session{}
	defer s2.Close()
	zzExec(t, s2, "use d23")
	if got := zzQuery(t, s2, "select a from t"); fmt.Sprint(got) != "[1 3]" {
		t.Fatalf("after recovery want [1 3], got %v", got)
	}
	if err := s2.ExecQuery("insert into t (a, b) values (4, 'w')"); err != nil {
		t.Fatalf("first INSERT after recovery: %v", err)
	}
	if got := zzQuery(t, s2, "select a from t"); fmt.Sprint(got) != "[1 3 4]" {
		t.Fatalf("want [1 3 4], got %v", got)
	}
}
