package engine

import (
	"testing"
)

// D20 (C07): the per-aggregate row counter of AVG is keyed by group key + column reference. Two AVG columns over
// the same column share one counter, which is then advanced twice per row: both averages are wrong.
func TestD20SameColumnAveragedTwice(t *testing.T) {
	zzChdir(t)
	s := &Session{}
	defer s.Close()
	zzExec(t, s, "create database d20")
	zzExec(t, s, "use d20")
	zzExec(t, s, "create table t (v int)")
	zzExec(t, s, "insert into t (v) values (10), (20), (60)")
	if got := zzQuery(t, s, "select avg(v) from t"); len(got) != 1 || got[0] != "30" {
		t.Errorf("avg(v) over 10,20,60: want 30 got %v", got)
	}
	if got := zzQuery(t, s, "select avg(v), avg(v) from t"); len(got) != 1 || got[0] != "30|30" {
		t.Errorf("avg(v), avg(v) over 10,20,60: want 30|30 got %v", got)
	}
}
