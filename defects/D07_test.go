package engine

import (
	"fmt"
	"testing"
)

// D7b (C07): the running average was rounded at every step.
// D7c (C07): the group key concatenated "%v" renderings with no delimiter.
func TestD07Aggregates(t *testing.T) {
	zzChdir(t)
	s := &Session{}
	defer s.Close()
	zzExec(t, s, "create database d7")
	zzExec(t, s, "use d7")
	zzExec(t, s, "create table t (a int)")
	for _, v := range []int{0, 1, 0, 0} {
		zzExec(t, s, fmt.Sprintf("insert into t (a) values (%d)", v))
	}
	if got := zzQuery(t, s, "select avg(a) from t"); len(got) != 1 || got[0] != "0" {
		t.Errorf("avg(0,1,0,0) want 0 got %v", got)
	}
	zzExec(t, s, "create table u (a int)")
	for _, v := range []int{3, 0, 0, 0, 0, 0} { // 0.5 rounds to 1 only once
		zzExec(t, s, fmt.Sprintf("insert into u (a) values (%d)", v))
	}
	if got := zzQuery(t, s, "select avg(a) from u"); len(got) != 1 || got[0] != "1" {
		t.Errorf("avg(3,0,0,0,0,0)=0.5 want 1 got %v", got)
	}
	zzExec(t, s, "create table g (a int, b int)")
	zzExec(t, s, "insert into g (a, b) values (1, 23), (12, 3), (1, 23), (12, 3)")
	if got := zzQuery(t, s, "select a, b, count(*) from g group by a, b"); len(got) != 2 {
		t.Errorf("groups (1,23) and (12,3) merged: %v", got)
	}
	zzExec(t, s, "create table h (a varchar(10), b varchar(10))")
	zzExec(t, s, "insert into h (a, b) values ('x', 'yz'), ('xy', 'z')")
	if got := zzQuery(t, s, "select a, b, count(*) from h group by a, b"); len(got) != 2 {
		t.Errorf("groups (x,yz) and (xy,z) merged: %v", got)
	}
}
