package engine

import (
	"strings"
	"testing"
)

// D9a/b (C14, OPEN — recorded in known_findings.jsonl): a multi-row statement
// whose k-th row is refused leaves rows 1..k-1 applied (and unlogged).
// This test FAILS on the current tree; it documents the finding.
func TestD09PartialMultiRowStatement(t *testing.T) {
	zzChdir(t)
	s := &Session{}
	defer s.Close()
	zzExec(t, s, "create database d9")
	zzExec(t, s, "use d9")
	zzExec(t, s, "create table t (a int, b varchar(500))")
	zzExec(t, s, "insert into t (a, b) values (1, 'x')")
	if err := s.ExecQuery("insert into t (a, b) values (200, 'ok'), ('bad', 'ok')"); err == nil {
		t.Fatal("type mismatch accepted")
	}
	if got := zzQuery(t, s, "select a from t"); len(got) != 1 {
		t.Errorf("D9a: failed INSERT changed the table: %v", got)
	}
	// D9b: UPDATE whose second row becomes too large
	zzExec(t, s, "create table u (a int, b varchar(500))")
	zzExec(t, s, "insert into u (a, b) values (1, 'short')")
	zzExec(t, s, "insert into u (a, b) values (1, '"+strings.Repeat("y", 380)+"')")
	zzExec(t, s, "create table v (a int, b varchar(500), c varchar(500))")
	zzExec(t, s, "insert into v (a, b, c) values (1, 's', 's')")
	zzExec(t, s, "insert into v (a, b, c) values (1, '"+strings.Repeat("y", 300)+"', 's')")
	if err := s.ExecQuery("update v set c = '" + strings.Repeat("z", 95) + "' where a = 1"); err == nil {
		t.Fatal("oversized row accepted")
	}
	for _, r := range zzQuery(t, s, "select c from v") {
		if r != "s" {
			t.Errorf("D9b: failed UPDATE changed a row: c=%.10s...", r)
		}
	}
}
