#!/bin/sh
# usage: defects/run.sh [-run REGEX]  — copies /repo to a scratch dir, adds the demos, runs them, removes the copy
export GOFLAGS=-mod=mod GOPROXY=off GOSUMDB=off GOTOOLCHAIN=local; unset GOWORK
S=$(mktemp -d /tmp/mkdb-defects.XXXXXX)
rsync -a --exclude .git /repo/ "$S/"
cp /verif/defects/*_test.go "$S/engine/"
[ -d /verif/defects/storage ] && cp /verif/defects/storage/*_test.go "$S/storage/"
[ -d /verif/defects/sql ] && cp /verif/defects/sql/*_test.go "$S/sql/"
[ -d /verif/defects/csvimport ] && cp /verif/defects/csvimport/*_test.go "$S/cmd/csvimport/"
[ -d /verif/defects/console ] && cp /verif/defects/console/*_test.go "$S/cmd/console/"
(cd "$S" && go test -vet=off -count=1 -run "${1:-TestD}" ./... 2>&1 | grep -E '^(---|===|ok|FAIL|PASS|panic|\s+D[0-9a-z_]+_test.go|\s+.*_test.go:)' )
rm -rf "$S"
