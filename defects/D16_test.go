package engine

import (
	"fmt"
	"os"
	"os/exec"
	"testing"
	"time"

	"github.com/mk6i/mkdb/storage"
)

// D16 (C04): a crash inside a flush that has written only some of the pages one row operation changed.
// A leaf split stamps the old leaf, the new sibling and the new root with the same LSN; the flush writes dirty pages
// one by one in map order. If the process dies after the old leaf (now holding the left half) reached the file and
// before the sibling did, redo looks at the LSN of the page the record names — the old leaf, already stamped — and
// skips the insert: the rows that moved to the sibling are gone, and the logged root move points at a page that was
// never written.
func TestD16CrashInsideFlushAfterSplit(t *testing.T) {
	zzChdir(t)
	s := &Session{}
	zzExec(t, s, "create database d16")
	zzExec(t, s, "use d16")
	zzExec(t, s, "create table t (a int)")
	for i := 1; i <= 8; i++ {
		zzExec(t, s, fmt.Sprintf("insert into t (a) values (%d)", i))
	}
	time.Sleep(350 * time.Millisecond) // complete flush: image A
	img := t.TempDir()
	if out, err := exec.Command("cp", "-r", "data", img+"/data").CombinedOutput(); err != nil {
		t.Fatalf("cp: %v %s", err, out)
	}
	zzExec(t, s, "insert into t (a) values (9)") // the leaf reaches 9 rows and splits; logged and acknowledged
	time.Sleep(350 * time.Millisecond)           // complete flush: image B
	b, err := os.ReadFile("data/d16/tbl")
	if err != nil {
		t.Fatal(err)
	}
	a, err := os.ReadFile(img + "/data/d16/tbl")
	if err != nil {
		t.Fatal(err)
	}
	// the crash image: image A plus the ONE page write the flush got done — the old leaf (the table's first page,
	// the third page after the header page and the two catalog roots)
	const pageSize, oldLeaf = 4096, 3 * 4096
	copy(a[oldLeaf:oldLeaf+pageSize], b[oldLeaf:oldLeaf+pageSize])
	if err := os.WriteFile(img+"/data/d16/tbl", a, 0644); err != nil {
		t.Fatal(err)
	}
	if out, err := exec.Command("cp", "data/d16/wal", img+"/data/d16/wal").CombinedOutput(); err != nil {
		t.Fatalf("cp wal: %v %s", err, out)
	}
	s.Close()
	if err := os.Chdir(img); err != nil {
		t.Fatal(err)
	}
	if err := storage.InitStorage(); err != nil {
		t.Fatalf("recovery failed: %v", err)
	}
	s2 := &Session{}
	defer s2.Close()
	zzExec(t, s2, "use d16")
	var got []string
	func() {
		defer func() {
			if r := recover(); r != nil {
				t.Fatalf("after a crash inside the flush SELECT panics: %v", r)
			}
		}()
		got = zzQuery(t, s2, "select a from t")
	}()
	if fmt.Sprint(got) != "[1 2 3 4 5 6 7 8 9]" {
		t.Fatalf("after a crash inside the flush want [1 2 3 4 5 6 7 8 9], got %v", got)
	}
}
