package engine

import (
	"strings"
	"testing"
)

// D17 (C14): CREATE TABLE registers the table in the page table before the schema rows are written; a schema row
// that is refused (a column name that makes the catalog row larger than a cell may be) makes the statement fail with the table
// half created: it "already exists", but has no (or only some) columns.
func TestD17FailedCreateTableLeavesCatalogRows(t *testing.T) {
	zzChdir(t)
	s := &Session{}
	defer s.Close()
	zzExec(t, s, "create database d17")
	zzExec(t, s, "use d17")
	long := strings.Repeat("c", 395)
	err := s.ExecQuery("create table t (a int, " + long + " int)")
	if err == nil {
		t.Skip("the long column name was accepted: nothing to show")
	}
	// the statement failed: the catalog must be as before, so the same name can be created now
	if err2 := s.ExecQuery("create table t (a int)"); err2 != nil {
		t.Fatalf("CREATE TABLE failed with %q, yet a second CREATE TABLE t reports: %v", err, err2)
	}
}

// the same for a declared length the catalog's int column cannot hold
func TestD17FailedCreateTableLengthOutOfRange(t *testing.T) {
	zzChdir(t)
	s := &Session{}
	defer s.Close()
	zzExec(t, s, "create database d17b")
	zzExec(t, s, "use d17b")
	err := s.ExecQuery("create table t (a int, b varchar(3000000000))")
	if err == nil {
		t.Skip("the length was accepted: nothing to show")
	}
	if err2 := s.ExecQuery("create table t (a int)"); err2 != nil {
		t.Fatalf("CREATE TABLE failed with %q, yet a second CREATE TABLE t reports: %v", err, err2)
	}
}
