package engine

import (
	"fmt"
	"os"
	"os/exec"
	"testing"
	"time"

	"github.com/mk6i/mkdb/storage"
)

// D4 (C03): a log cut inside its last record made recovery fail, so the
// database did not start. After the fix the torn tail is dropped (and cut off
// the file, so that later appends start at a record boundary).
func TestD04TornLogTail(t *testing.T) {
	zzChdir(t)
	s := &Session{}
	zzExec(t, s, "create database d4")
	zzExec(t, s, "use d4")
	zzExec(t, s, "create table t (a int)")
	zzExec(t, s, "insert into t (a) values (1)")
	time.Sleep(350 * time.Millisecond)
	before, _ := os.Stat("data/d4/wal")
	zzExec(t, s, "insert into t (a) values (2),(3)")
	after, _ := os.Stat("data/d4/wal")
	recLen := (after.Size() - before.Size()) / 2
	src, _ := os.Getwd()
	for _, cut := range []int64{1, 2, 3, 4, 10, recLen - 1, recLen + 1, recLen + 4, recLen + 10} {
		dir := t.TempDir()
		if out, err := exec.Command("cp", "-r", src+"/data", dir+"/data").CombinedOutput(); err != nil {
			t.Fatalf("cp: %v %s", err, out)
		}
		os.Chdir(dir)
		if err := os.Truncate("data/d4/wal", before.Size()+cut); err != nil {
			t.Fatal(err)
		}
		if err := storage.InitStorage(); err != nil {
			t.Errorf("log cut %d bytes into the statement's records: database does not start: %v", cut, err)
			continue
		}
		s2 := &Session{}
		zzExec(t, s2, "use d4")
		got := zzQuery(t, s2, "select a from t")
		want := 1
		if cut >= recLen {
			want = 2
		}
		if len(got) != want {
			t.Errorf("cut %d: want %d rows, got %v", cut, want, got)
		}
		// the database keeps working across another restart
		zzExec(t, s2, "insert into t (a) values (9)")
		s2.Close()
		if err := storage.InitStorage(); err != nil {
			t.Errorf("cut %d: second start fails: %v", cut, err)
			continue
		}
		s3 := &Session{}
		zzExec(t, s3, "use d4")
		if got := zzQuery(t, s3, "select a from t"); len(got) != want+1 || got[len(got)-1] != "9" {
			t.Errorf("cut %d: after a further insert and restart: %v", cut, fmt.Sprint(got))
		}
		s3.Close()
	}
	os.Chdir(src)
	s.Close()
}
