package engine

import (
	"fmt"
	"testing"
)

// D24 (C07): GROUP BY without an aggregate function in the select list returned the rows ungrouped —
// aggregateRows returned early whenever the select list had no aggregate, GROUP BY or not.
func TestD24GroupByWithoutAggregate(t *testing.T) {
	zzChdir(t)
	s := &Session{}
	defer s.Close()
	zzExec(t, s, "create database d24")
	zzExec(t, s, "use d24")
	zzExec(t, s, "create table t (a int, b int)")
	zzExec(t, s, "insert into t (a, b) values (1, 10), (2, 20), (1, 30), (2, 40), (3, 50)")
	if got := zzQuery(t, s, "select a from t group by a"); fmt.Sprint(got) != "[1 2 3]" {
		t.Errorf("select a from t group by a: want one row per group [1 2 3], got %v", got)
	}
}
