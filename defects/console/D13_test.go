package main

import (
	"bytes"
	"reflect"
	"testing"
)

// D13 (C20): a semicolon inside a quoted literal ended the statement.
func TestD13SemicolonInLiteral(t *testing.T) {
	in := bytes.NewBuffer(nil)
	in.WriteString("INSERT INTO t (a) VALUES ('a;b'); SELECT \"x;y\" FROM t;\n\r" +
		"INSERT INTO t (a) VALUES ('it\\'s;');\n\r" +
		"INSERT INTO t (a) VALUES ('open;\n\r" +
		"closed');\n\r")
	term := NewTerminal(in, "")
	expect := [][]string{
		{"INSERT INTO t (a) VALUES ('a;b');", "SELECT \"x;y\" FROM t;"},
		{"INSERT INTO t (a) VALUES ('it\\'s;');"},
		{"INSERT INTO t (a) VALUES ('open; closed');"},
	}
	for _, want := range expect {
		got, _ := term.ReadLine()
		if !reflect.DeepEqual(want, got) {
			t.Errorf("want %q got %q", want, got)
		}
	}
}
