package sql

import (
	"strings"
	"testing"
)

func zzParse(q string) (stmt interface{}, err error, panicked interface{}) {
	defer func() { panicked = recover() }()
	ts := NewTokenScanner(strings.NewReader(q))
	tl := TokenList{}
	for ts.Next() {
		tl.Add(ts.Cur())
	}
	p := Parser{TokenList: tl}
	stmt, err = p.Parse()
	return
}

// D5 (C09): inputs that made the front end panic.
func TestD05FrontEndPanics(t *testing.T) {
	for _, q := range []string{
		`'`, `"`, `select '`, `select "`,
		`select * from t where a=1 AND b=2 OR c=3`,
		`select * from t where a AND b`,
		`SELECT 1 OR 2`,
		`select * from t limit 99999999999999999999`,
		`create table t (a varchar(99999999999999999999))`,
	} {
		if _, _, p := zzParse(q); p != nil {
			t.Errorf("%q panicked: %v", q, p)
		}
	}
	// AND binds tighter than OR also when the AND comes first
	stmt, err, _ := zzParse(`select * from t where a=1 AND b=2 OR c=3`)
	if err != nil {
		t.Fatalf("a=1 AND b=2 OR c=3: %v", err)
	}
	sc, ok := stmt.(Select).WhereClause.(WhereClause).SearchCondition.(SearchCondition)
	if !ok {
		t.Fatalf("top of a=1 AND b=2 OR c=3 is not an OR: %#v", stmt)
	}
	if _, ok := sc.LHS.(BooleanTerm); !ok {
		t.Fatalf("left of OR is not the AND term: %#v", sc.LHS)
	}
}

// D6b (C10): trailing input must not be dropped silently.
func TestD06TrailingInput(t *testing.T) {
	for _, q := range []string{
		`SELECT a FROM t x y`,
		`INSERT INTO t (a) VALUES (1),(2) (3)`,
		`SELECT a FROM t ORDER BY a LIMIT 1 garbage`,
		`USE db1 db2`,
		`DELETE FROM t WHERE a = 1 2`,
	} {
		if _, err, _ := zzParse(q); err == nil {
			t.Errorf("%q: accepted with its tail dropped", q)
		}
	}
	for _, q := range []string{`SELECT a FROM t;`, `SELECT a FROM t`, `SELECT 1;`, `USE db1;`} {
		if _, err, _ := zzParse(q); err != nil {
			t.Errorf("%q: %v", q, err)
		}
	}
}

// D7a (C07/C10): GROUP BY takes a comma separated list.
func TestD07GroupByCommaList(t *testing.T) {
	stmt, err, _ := zzParse(`SELECT a, b, count(*) FROM t GROUP BY a, b`)
	if err != nil {
		t.Fatal(err)
	}
	if g := stmt.(Select).GroupByClause; len(g) != 2 {
		t.Fatalf("GROUP BY a, b parsed as %v", g)
	}
}
