package engine

// Helper for the defect demonstrations kept under /verif/defects. Copy this file
// and the wanted D*_test.go into <scratch copy of mkdb>/engine/ and run
//   go test -vet=off -count=1 -run 'TestD' ./engine/
// Nothing here is part of a check; the checks are static (see DESIGN.md).

import (
	"fmt"
	"os"
	"strings"
	"testing"

	"github.com/mk6i/mkdb/sql"
	"github.com/mk6i/mkdb/storage"
)

func zzChdir(t *testing.T) {
	t.Helper()
	dir := t.TempDir()
	old, _ := os.Getwd()
	if err := os.Chdir(dir); err != nil {
		t.Fatal(err)
	}
	t.Cleanup(func() { os.Chdir(old) })
	if err := storage.InitStorage(); err != nil {
		t.Fatal(err)
	}
}

func zzExec(t *testing.T, s *Session, q string) {
	t.Helper()
	if err := s.ExecQuery(q); err != nil {
		t.Fatalf("%s: %v", q, err)
	}
}

func zzQuery(t *testing.T, s *Session, q string) []string {
	t.Helper()
	stmt, err := parseSQL(q)
	if err != nil {
		t.Fatalf("%s: %v", q, err)
	}
	rows, _, err := EvaluateSelect(stmt.(sql.Select), s.RelationService)
	if err != nil {
		t.Fatalf("%s: %v", q, err)
	}
	var out []string
	for _, r := range rows {
		var parts []string
		for _, v := range r.Vals {
			parts = append(parts, fmt.Sprint(v))
		}
		out = append(out, strings.Join(parts, "|"))
	}
	return out
}
