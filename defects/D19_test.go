package engine

import (
	"testing"
)

// D19 (C07): aggregateRows looks a GROUP BY column up in a map keyed by the select list's exact column
// references. A grouping column given by bare name while the select list qualifies it (t.year), or given by
// its alias, is accepted by the parser (DerivedColumn.Matches) but misses the map: the zero index 0 is used
// and the rows are grouped by the first select column instead.
func TestD19GroupByNameQualifierAlias(t *testing.T) {
	zzChdir(t)
	s := &Session{}
	defer s.Close()
	zzExec(t, s, "create database d19")
	zzExec(t, s, "use d19")
	zzExec(t, s, "create table t (year int, name varchar(10))")
	zzExec(t, s, "insert into t (year, name) values (2000, 'a'), (2001, 'b'), (2000, 'c')")
	for _, q := range []string{
		"select count(*), year from t group by year",      // reference: exact match
		"select count(*), t.year from t group by year",    // bare name, qualified select column
		"select count(*), year as y from t group by y",    // alias
		"select count(*), t.year as y from t group by y",  // alias of a qualified column
		"select count(name), t.year from t group by year", // COUNT(col)
	} {
		got := zzQuery(t, s, q)
		if len(got) != 2 {
			t.Errorf("%s: want 2 groups (2000 -> 2, 2001 -> 1), got %v", q, got)
		}
	}
}
