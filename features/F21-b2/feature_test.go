package engine

import (
	"errors"
	"reflect"
	"testing"

	"github.com/mk6i/mkdb/sql"
	"github.com/mk6i/mkdb/storage"
)

// orderByFixture returns a fresh copy of the test table on every fetch, the
// evaluation rearranges rows in place.
func orderByFixture() *mockRelationManager {
	return &mockRelationManager{
		fetch: func(tableName string) ([]*storage.Row, []*storage.Field, error) {
			switch tableName {
			case "tbl1":
				fields := []*storage.Field{
					{Column: "id"},
					{Column: "name"},
					{Column: "score"},
				}
				rows := []*storage.Row{
					{Vals: []interface{}{int64(1), "b", int64(30)}},
					{Vals: []interface{}{int64(2), "a", int64(10)}},
					{Vals: []interface{}{int64(3), "c", nil}},
					{Vals: []interface{}{int64(4), "a", int64(20)}},
					{Vals: []interface{}{int64(5), "b", int64(10)}},
				}
				return rows, fields, nil
			case "empty":
				return nil, []*storage.Field{{Column: "id"}, {Column: "name"}}, nil
			}
			return nil, nil, storage.ErrTableNotExist
		},
	}
}

func runOrderBy(t *testing.T, query string) ([]*storage.Row, []*storage.Field, error) {
	t.Helper()
	stmt, err := parseSQL(query)
	if err != nil {
		t.Fatalf("%s: unexpected parse error: %v", query, err)
	}
	return EvaluateSelect(stmt.(sql.Select), orderByFixture())
}

func rowVals(rows []*storage.Row) [][]interface{} {
	var ret [][]interface{}
	for _, row := range rows {
		ret = append(ret, row.Vals)
	}
	return ret
}

func TestParseOrderByPosition(t *testing.T) {
	type spec struct {
		key sql.ColumnReference
		pos int
		dir sql.TokenType
	}

	tc := []struct {
		query  string
		expect []spec
	}{
		{
			query:  `SELECT id, name FROM tbl1 ORDER BY 2`,
			expect: []spec{{pos: 2, dir: sql.ASC}},
		},
		{
			query:  `SELECT id, name FROM tbl1 ORDER BY 2 DESC`,
			expect: []spec{{pos: 2, dir: sql.DESC}},
		},
		{
			query:  `SELECT id, name FROM tbl1 ORDER BY 2 ASC;`,
			expect: []spec{{pos: 2, dir: sql.ASC}},
		},
		{
			query: `SELECT id, name, score FROM tbl1 t ORDER BY 3 DESC, t.name, 1 ASC LIMIT 2`,
			expect: []spec{
				{pos: 3, dir: sql.DESC},
				{key: sql.ColumnReference{Qualifier: "t", ColumnName: "name"}, dir: sql.ASC},
				{pos: 1, dir: sql.ASC},
			},
		},
		{
			// the upper bound is not known to the parser
			query:  `SELECT * FROM tbl1 ORDER BY 40`,
			expect: []spec{{pos: 40, dir: sql.ASC}},
		},
		{
			// sorting by name yields the same tree as before
			query:  `SELECT id, name FROM tbl1 ORDER BY name DESC`,
			expect: []spec{{key: sql.ColumnReference{ColumnName: "name"}, dir: sql.DESC}},
		},
	}

	for _, test := range tc {
		t.Run(test.query, func(t *testing.T) {
			stmt, err := parseSQL(test.query)
			if err != nil {
				t.Fatalf("unexpected error: %v", err)
			}
			var actual []spec
			for _, ss := range stmt.(sql.Select).SortSpecificationList {
				actual = append(actual, spec{key: ss.SortKey, pos: ss.Position, dir: ss.OrderingSpecification.Type})
			}
			if !reflect.DeepEqual(test.expect, actual) {
				t.Errorf("expected %+v, got %+v", test.expect, actual)
			}
		})
	}
}

func TestParseOrderByPositionErrors(t *testing.T) {
	tc := []struct {
		query     string
		expectErr error
	}{
		{`SELECT id, name FROM tbl1 ORDER BY 0`, sql.ErrInvalidSortPosition},
		{`SELECT id, name FROM tbl1 ORDER BY 1, 0 DESC`, sql.ErrInvalidSortPosition},
		{`SELECT id, name FROM tbl1 ORDER BY`, sql.ErrUnexpectedToken},
		{`SELECT id, name FROM tbl1 ORDER BY 1,`, sql.ErrUnexpectedToken},
		{`SELECT id, name FROM tbl1 ORDER BY 'name'`, sql.ErrUnexpectedToken},
		{`SELECT id, name FROM tbl1 ORDER BY 1 2`, sql.ErrSyntax},
	}

	for _, test := range tc {
		t.Run(test.query, func(t *testing.T) {
			_, err := parseSQL(test.query)
			if !errors.Is(err, test.expectErr) {
				t.Errorf("expected %v, got %v", test.expectErr, err)
			}
		})
	}

	// a position that does not fit an integer and a negative position are
	// errors, not panics
	for _, q := range []string{
		`SELECT id, name FROM tbl1 ORDER BY 99999999999999999999999`,
		`SELECT id, name FROM tbl1 ORDER BY -1`,
	} {
		if _, err := parseSQL(q); err == nil {
			t.Errorf("%s: expected an error", q)
		}
	}
}

func TestSelectOrderByPosition(t *testing.T) {
	tc := []struct {
		name   string
		query  string
		expect [][]interface{}
	}{
		{
			name:  "single position, ascending by default",
			query: `SELECT id, score FROM tbl1 WHERE id != 3 ORDER BY 2, 1`,
			expect: [][]interface{}{
				{int64(2), int64(10)},
				{int64(5), int64(10)},
				{int64(4), int64(20)},
				{int64(1), int64(30)},
			},
		},
		{
			name:  "descending",
			query: `SELECT id, name FROM tbl1 ORDER BY 1 DESC`,
			expect: [][]interface{}{
				{int64(5), "b"},
				{int64(4), "a"},
				{int64(3), "c"},
				{int64(2), "a"},
				{int64(1), "b"},
			},
		},
		{
			name:  "position counts select-list columns, not table columns",
			query: `SELECT name, id FROM tbl1 ORDER BY 1 DESC, 2 DESC`,
			expect: [][]interface{}{
				{"c", int64(3)},
				{"b", int64(5)},
				{"b", int64(1)},
				{"a", int64(4)},
				{"a", int64(2)},
			},
		},
		{
			name:  "position and name mixed",
			query: `SELECT name, id FROM tbl1 ORDER BY name, 2 DESC`,
			expect: [][]interface{}{
				{"a", int64(4)},
				{"a", int64(2)},
				{"b", int64(5)},
				{"b", int64(1)},
				{"c", int64(3)},
			},
		},
		{
			name:  "SELECT * uses the table's column order",
			query: `SELECT * FROM tbl1 ORDER BY 2 DESC, 1`,
			expect: [][]interface{}{
				{int64(3), "c", nil},
				{int64(1), "b", int64(30)},
				{int64(5), "b", int64(10)},
				{int64(2), "a", int64(10)},
				{int64(4), "a", int64(20)},
			},
		},
		{
			name:  "last position is in range",
			query: `SELECT * FROM tbl1 ORDER BY 3 DESC, 1 DESC`,
			expect: [][]interface{}{
				{int64(1), "b", int64(30)},
				{int64(4), "a", int64(20)},
				{int64(5), "b", int64(10)},
				{int64(2), "a", int64(10)},
				{int64(3), "c", nil},
			},
		},
		{
			name:  "NULL sorts first, as it does when sorting by name",
			query: `SELECT id, score FROM tbl1 ORDER BY 2, 1`,
			expect: [][]interface{}{
				{int64(3), nil},
				{int64(2), int64(10)},
				{int64(5), int64(10)},
				{int64(4), int64(20)},
				{int64(1), int64(30)},
			},
		},
		{
			name:  "aliased column",
			query: `SELECT id, name AS n FROM tbl1 ORDER BY 2, 1`,
			expect: [][]interface{}{
				{int64(2), "a"},
				{int64(4), "a"},
				{int64(1), "b"},
				{int64(5), "b"},
				{int64(3), "c"},
			},
		},
		{
			name:  "aggregate column, which has no name to sort by",
			query: `SELECT name, count(*) FROM tbl1 GROUP BY name ORDER BY 2 DESC, 1 DESC`,
			expect: [][]interface{}{
				{"b", int64(2)},
				{"a", int64(2)},
				{"c", int64(1)},
			},
		},
		{
			name:  "LIMIT and OFFSET apply after the sort",
			query: `SELECT id FROM tbl1 ORDER BY 1 DESC LIMIT 2 OFFSET 1`,
			expect: [][]interface{}{
				{int64(4)},
				{int64(3)},
			},
		},
		{
			name:   "empty table",
			query:  `SELECT id, name FROM empty ORDER BY 2 DESC`,
			expect: nil,
		},
	}

	for _, test := range tc {
		t.Run(test.name, func(t *testing.T) {
			rows, _, err := runOrderBy(t, test.query)
			if err != nil {
				t.Fatalf("unexpected error: %v", err)
			}
			if actual := rowVals(rows); !reflect.DeepEqual(test.expect, actual) {
				t.Errorf("expected %v, got %v", test.expect, actual)
			}
		})
	}
}

// sorting by position gives the rows and the header that sorting by the name
// in that position gives
func TestSelectOrderByPositionMatchesName(t *testing.T) {
	pairs := [][2]string{
		{`SELECT id, name, score FROM tbl1 ORDER BY 2 DESC, 3, 1`, `SELECT id, name, score FROM tbl1 ORDER BY name DESC, score, id`},
		{`SELECT * FROM tbl1 ORDER BY 3 DESC, 1 DESC`, `SELECT * FROM tbl1 ORDER BY score DESC, id DESC`},
		{`SELECT score, id FROM tbl1 ORDER BY 1, 2 DESC`, `SELECT score, id FROM tbl1 ORDER BY score, id DESC`},
	}
	for _, pair := range pairs {
		byPosRows, byPosFields, err := runOrderBy(t, pair[0])
		if err != nil {
			t.Fatalf("%s: unexpected error: %v", pair[0], err)
		}
		byNameRows, byNameFields, err := runOrderBy(t, pair[1])
		if err != nil {
			t.Fatalf("%s: unexpected error: %v", pair[1], err)
		}
		if !reflect.DeepEqual(rowVals(byNameRows), rowVals(byPosRows)) {
			t.Errorf("%s: expected %v, got %v", pair[0], rowVals(byNameRows), rowVals(byPosRows))
		}
		if !reflect.DeepEqual(byNameFields, byPosFields) {
			t.Errorf("%s: expected header %v, got %v", pair[0], byNameFields, byPosFields)
		}
	}
}

func TestSelectOrderByPositionOutOfRange(t *testing.T) {
	tc := []string{
		`SELECT id, name FROM tbl1 ORDER BY 3`,
		`SELECT id, name FROM tbl1 ORDER BY 1, 3 DESC`,
		`SELECT id FROM tbl1 ORDER BY 2`,
		`SELECT * FROM tbl1 ORDER BY 4`,
		`SELECT name, count(*) FROM tbl1 GROUP BY name ORDER BY 3`,
		// the position is checked whether or not there are rows to sort
		`SELECT id, name FROM empty ORDER BY 3`,
		`SELECT id, name FROM tbl1 WHERE id > 100 ORDER BY 3`,
	}
	for _, q := range tc {
		t.Run(q, func(t *testing.T) {
			rows, fields, err := runOrderBy(t, q)
			if !errors.Is(err, ErrSortPositionRange) {
				t.Errorf("expected %v, got %v", ErrSortPositionRange, err)
			}
			if rows != nil || fields != nil {
				t.Errorf("expected no result, got %v %v", rows, fields)
			}
		})
	}

	// a sort specification built by hand with a negative position is refused
	// as well
	q := sql.Select{
		SelectList:      sql.SelectList{{ValueExpressionPrimary: sql.Asterisk{}}},
		TableExpression: sql.TableExpression{FromClause: sql.FromClause{sql.TableName{Name: "tbl1"}}},
		SortSpecificationList: []sql.SortSpecification{
			{Position: -1, OrderingSpecification: sql.Token{Type: sql.ASC}},
		},
	}
	if _, _, err := EvaluateSelect(q, orderByFixture()); !errors.Is(err, ErrSortPositionRange) {
		t.Errorf("expected %v, got %v", ErrSortPositionRange, err)
	}
}

// an unknown sort column name is still reported the way it was
func TestSelectOrderByNameNotFoundUnchanged(t *testing.T) {
	_, _, err := runOrderBy(t, `SELECT id, name FROM tbl1 ORDER BY score`)
	if !errors.Is(err, ErrSortFieldNotFound) {
		t.Errorf("expected %v, got %v", ErrSortFieldNotFound, err)
	}
}

func TestOrderByPositionIntegration(t *testing.T) {
	defer storage.ClearDataDir()

	s := Session{}
	defer s.Close()

	setup := []string{
		`CREATE DATABASE orderbyposdb`,
		`USE orderbyposdb`,
		`CREATE TABLE people (person_id int, first_name varchar(255), visits bigint)`,
		`INSERT INTO people VALUES (1, 'John', 5), (2, 'Ikra', 9), (3, 'Gerrard', 1)`,
		`INSERT INTO people (person_id, first_name) VALUES (4, 'Malia')`,
		// goes through the session, including the result printer
		`SELECT first_name, visits FROM people ORDER BY 2 DESC`,
	}
	for _, q := range setup {
		if err := s.ExecQuery(q); err != nil {
			t.Fatalf("error running query:\n %s\nError: %s", q, err.Error())
		}
	}

	stmt, err := parseSQL(`SELECT first_name, visits FROM people ORDER BY 2 DESC`)
	if err != nil {
		t.Fatalf("unexpected parse error: %v", err)
	}
	rows, _, err := EvaluateSelect(stmt.(sql.Select), s.RelationService)
	if err != nil {
		t.Fatalf("unexpected error: %v", err)
	}
	expect := [][]interface{}{
		{"Ikra", int64(9)},
		{"John", int64(5)},
		{"Gerrard", int64(1)},
		{"Malia", nil},
	}
	if actual := rowVals(rows); !reflect.DeepEqual(expect, actual) {
		t.Errorf("expected %v, got %v", expect, actual)
	}

	if err := s.ExecQuery(`SELECT first_name, visits FROM people ORDER BY 3`); !errors.Is(err, ErrSortPositionRange) {
		t.Errorf("expected %v, got %v", ErrSortPositionRange, err)
	}
	if err := s.ExecQuery(`SELECT first_name, visits FROM people ORDER BY 0`); err == nil {
		t.Errorf("expected an error for position 0")
	}
}
