package main

import (
	"errors"
	"flag"
	"reflect"
	"strings"
	"testing"

	"github.com/mk6i/mkdb/storage"
)

func TestParseSeparator(t *testing.T) {
	tests := []struct {
		name    string
		arg     string
		want    rune
		wantErr bool
	}{
		{name: "default comma", arg: ",", want: ','},
		{name: "semicolon", arg: ";", want: ';'},
		{name: "pipe", arg: "|", want: '|'},
		{name: "backslash t is a tab", arg: `\t`, want: '\t'},
		{name: "the tab character itself", arg: "\t", want: '\t'},
		{name: "a lone backslash stays a backslash", arg: `\`, want: '\\'},
		{name: "a lone t stays a t", arg: "t", want: 't'},
		{name: "only the exact escape is a tab", arg: `\tx`, want: '\\'},
		{name: "other escapes are not understood", arg: `\n`, want: '\\'},
		{name: "upper case is not the escape", arg: `\T`, want: '\\'},
		{name: "first character of a longer value", arg: ";,", want: ';'},
		{name: "multi-byte character", arg: "→", want: '→'},
		{name: "space", arg: " ", want: ' '},
		{name: "empty value is an error", arg: "", wantErr: true},
	}

	for _, tc := range tests {
		t.Run(tc.name, func(t *testing.T) {
			got, err := parseSeparator(tc.arg)
			if tc.wantErr {
				if err == nil {
					t.Fatalf("expected an error, got separator %q", got)
				}
				return
			}
			if err != nil {
				t.Fatalf("unexpected error: %s", err.Error())
			}
			if got != tc.want {
				t.Fatalf("separator does not match. expected: %q actual: %q", tc.want, got)
			}
		})
	}
}

func separatorSetFlag(t *testing.T, name string, val string) {
	t.Helper()
	f := flag.Lookup(name)
	if f == nil {
		t.Fatalf("flag -%s is not defined", name)
	}
	old := f.Value.String()
	if err := flag.Set(name, val); err != nil {
		t.Fatalf("setting -%s: %s", name, err.Error())
	}
	t.Cleanup(func() { flag.Set(name, old) })
}

func separatorSchema(t *testing.T) *mockRelationManager {
	return &mockRelationManager{
		fetch: func(tableName string) ([]*storage.Row, []*storage.Field, error) {
			if tableName != "sys_schema" {
				return nil, nil, errors.New("expected fetch for `sys_schema`")
			}
			return []*storage.Row{
					{Vals: []interface{}{"author", "name", int64(storage.TypeVarchar)}},
					{Vals: []interface{}{"author", "age", int64(storage.TypeInt)}},
				},
				[]*storage.Field{
					{Column: "table_name"},
					{Column: "field_name"},
					{Column: "field_type"},
				},
				nil
		},
	}
}

func TestSeparatorMakeConfig(t *testing.T) {
	separatorSetFlag(t, "db", "testdb")
	separatorSetFlag(t, "table", "author")
	separatorSetFlag(t, "dest-cols", "name,age")
	separatorSetFlag(t, "src-cols", "1,0")

	expect := importCfg{
		colTypes: []storage.DataType{storage.TypeVarchar, storage.TypeInt},
		db:       "testdb",
		dstCols:  []string{"name", "age"},
		srcCols:  []int{1, 0},
		table:    "author",
	}

	for arg, sep := range map[string]rune{",": ',', ";": ';', `\t`: '\t', "\t": '\t', `\`: '\\'} {
		separatorSetFlag(t, "separator", arg)
		cfg, err := makeConfig(separatorSchema(t))
		if err != nil {
			t.Fatalf("separator %q: unexpected error: %s", arg, err.Error())
		}
		expect.separator = sep
		if !reflect.DeepEqual(expect, cfg) {
			t.Fatalf("separator %q: config does not match. expected: %+v actual: %+v", arg, expect, cfg)
		}
	}
}

func TestSeparatorDefaultIsComma(t *testing.T) {
	f := flag.Lookup("separator")
	if f == nil {
		t.Fatalf("flag -separator is not defined")
	}
	if f.DefValue != "," {
		t.Fatalf("expected the default separator to be a comma, got %q", f.DefValue)
	}
}

// an empty separator is refused with an error, before the database is read.
func TestSeparatorEmptyMakeConfig(t *testing.T) {
	separatorSetFlag(t, "db", "testdb")
	separatorSetFlag(t, "table", "author")
	separatorSetFlag(t, "dest-cols", "name,age")
	separatorSetFlag(t, "src-cols", "0,1")
	separatorSetFlag(t, "separator", "")

	rm := &mockRelationManager{
		fetch: func(tableName string) ([]*storage.Row, []*storage.Field, error) {
			t.Errorf("unexpected fetch of %s", tableName)
			return nil, nil, errors.New("unexpected fetch")
		},
	}

	_, err := makeConfig(rm)
	if err == nil || !strings.Contains(err.Error(), "separator") {
		t.Fatalf("expected a separator error, got %v", err)
	}
}

// errors that were reported before the separator was looked at still are.
func TestSeparatorOtherConfigErrors(t *testing.T) {
	separatorSetFlag(t, "db", "testdb")
	separatorSetFlag(t, "table", "author")
	separatorSetFlag(t, "dest-cols", "name,age")
	separatorSetFlag(t, "separator", `\t`)

	separatorSetFlag(t, "src-cols", "0,x")
	if _, err := makeConfig(separatorSchema(t)); err == nil || !strings.Contains(err.Error(), "err parsing indexes") {
		t.Fatalf("expected an index error, got %v", err)
	}

	separatorSetFlag(t, "src-cols", "0,1")
	separatorSetFlag(t, "dest-cols", "name,nope")
	if _, err := makeConfig(separatorSchema(t)); err == nil || !strings.Contains(err.Error(), "err getting column types") {
		t.Fatalf("expected a column type error, got %v", err)
	}
}

// a tab-separated document is imported with the configuration that
// -separator '\t' produces.
func TestSeparatorTSVImport(t *testing.T) {
	separatorSetFlag(t, "db", "testdb")
	separatorSetFlag(t, "table", "author")
	separatorSetFlag(t, "dest-cols", "name,age")
	separatorSetFlag(t, "src-cols", "0,1")
	separatorSetFlag(t, "separator", `\t`)

	var importedRows [][]interface{}

	rm := separatorSchema(t)
	rm.insert = func(tableName string, cols []string, vals []interface{}) (storage.WALBatch, error) {
		importedRows = append(importedRows, vals)
		return []*storage.WALEntry{}, nil
	}
	rm.flushWALBatch = func(batch storage.WALBatch) error {
		return nil
	}

	cfg, err := makeConfig(rm)
	if err != nil {
		t.Fatalf("unexpected error: %s", err.Error())
	}

	tsv := strings.Join([]string{
		"Person, One\t10",
		"Person\\tTwo\t\\N",
		"\"Person\tThree\"\t30",
		"Person Four\tFoo", // conversion error
		"Person Five,50",   // one field only
		"\\N\t60\textra",
	}, "\n")

	chOk, chErr := doBatchInsert(rm, cfg, strings.NewReader(tsv))
	totalOk := 0
	totalErr := 0
	for chOk != nil || chErr != nil {
		select {
		case _, ok := <-chOk:
			if ok {
				totalOk++
			} else {
				chOk = nil
			}
		case err, ok := <-chErr:
			if ok {
				if !errors.Is(err, errMalformedRow) {
					t.Fatalf("unexpected error: %s", err.Error())
				}
				totalErr++
			} else {
				chErr = nil
			}
		}
	}

	expected := [][]interface{}{
		{"Person, One", int64(10)},
		{"Person\\tTwo", nil},
		{"Person\tThree", int64(30)},
		{nil, int64(60)},
	}
	if !reflect.DeepEqual(expected, importedRows) {
		t.Fatalf("imported rows do not match expected rows. expected: %v actual: %v", expected, importedRows)
	}
	if totalOk != len(expected) {
		t.Fatalf("total imported does not match expected count. expected: %d actual: %d", len(expected), totalOk)
	}
	if totalErr != 2 {
		t.Fatalf("total csv errors does not match expected count. expected: 2 actual: %d", totalErr)
	}
}
