package engine

import (
	"errors"
	"fmt"
	"reflect"
	"strings"
	"testing"

	"github.com/mk6i/mkdb/sql"
	"github.com/mk6i/mkdb/storage"
)

func parseCreateTable(t *testing.T, q string) sql.CreateTable {
	t.Helper()
	stmt, err := parseSQL(q)
	if err != nil {
		t.Fatalf("unable to parse `%s`: %s", q, err.Error())
	}
	ct, ok := stmt.(sql.CreateTable)
	if !ok {
		t.Fatalf("expected a CREATE TABLE statement, got %T", stmt)
	}
	return ct
}

func TestParseColumnDefault(t *testing.T) {
	ct := parseCreateTable(t, `CREATE TABLE t (
		a int DEFAULT 7,
		b varchar(10) default 'x y',
		c boolean Default true,
		d boolean DEFAULT false,
		e bigint DEFAULT NULL,
		f int,
		g varchar(5) DEFAULT '',
		"default" int
	)`)

	expect := []sql.ColumnDefinition{
		{Name: "a", DataType: sql.NumericType{}, Default: int64(7)},
		{Name: "b", DataType: sql.CharacterStringType{Len: 10, Type: sql.T_VARCHAR}, Default: "x y"},
		{Name: "c", DataType: sql.BooleanType{}, Default: true},
		{Name: "d", DataType: sql.BooleanType{}, Default: false},
		{Name: "e", DataType: sql.BigIntType{}},
		{Name: "f", DataType: sql.NumericType{}},
		{Name: "g", DataType: sql.CharacterStringType{Len: 5, Type: sql.T_VARCHAR}, Default: ""},
		{Name: "default", DataType: sql.NumericType{}},
	}

	if len(expect) != len(ct.Elements) {
		t.Fatalf("expected %d columns, got %d", len(expect), len(ct.Elements))
	}
	for i, elem := range ct.Elements {
		if !reflect.DeepEqual(expect[i], elem.ColumnDefinition) {
			t.Errorf("column %d: expected %#v, got %#v", i, expect[i], elem.ColumnDefinition)
		}
	}
}

func TestParseColumnDefaultErrors(t *testing.T) {
	tc := []struct {
		query     string
		expectErr error
	}{
		{query: `CREATE TABLE t (a int DEFAULT)`, expectErr: sql.ErrUnexpectedToken},
		{query: `CREATE TABLE t (a int DEFAULT, b int)`, expectErr: sql.ErrUnexpectedToken},
		{query: `CREATE TABLE t (a int DEFAULT b)`, expectErr: sql.ErrUnexpectedToken},
		{query: `CREATE TABLE t (a int DEFAULT 1 2)`, expectErr: sql.ErrUnexpectedToken},
		{query: `CREATE TABLE t (a int DEFAULT 1 DEFAULT 2)`, expectErr: sql.ErrUnexpectedToken},
		{query: `CREATE TABLE t (a DEFAULT 1)`, expectErr: sql.ErrSyntax},
		{query: `CREATE TABLE t (a int DEFAULT 99999999999999999999)`},
	}
	for _, test := range tc {
		t.Run(test.query, func(t *testing.T) {
			_, err := parseSQL(test.query)
			if err == nil {
				t.Fatalf("expected an error")
			}
			if test.expectErr != nil && !errors.Is(err, test.expectErr) {
				t.Errorf("expected error `%v`, got `%v`", test.expectErr, err)
			}
		})
	}
}

func TestCreateTableHandsDefaultsToStorage(t *testing.T) {
	var actual *storage.Relation
	rm := &mockRelationManager{
		createTable: func(r *storage.Relation, tableName string) error {
			actual = r
			return nil
		},
	}

	q := parseCreateTable(t, `CREATE TABLE t (a int DEFAULT 7, b varchar(10) DEFAULT 'x', c boolean DEFAULT false, d bigint)`)
	if err := EvaluateCreateTable(q, rm); err != nil {
		t.Fatal(err)
	}

	expect := &storage.Relation{
		Fields: []storage.FieldDef{
			{Name: "a", DataType: storage.TypeInt, Default: int64(7)},
			{Name: "b", DataType: storage.TypeVarchar, Len: 10, Default: "x"},
			{Name: "c", DataType: storage.TypeBoolean, Default: false},
			{Name: "d", DataType: storage.TypeBigInt},
		},
	}
	if !reflect.DeepEqual(expect, actual) {
		t.Errorf("expected %v, got %v", expect, actual)
	}
}

// a field without a default is rendered the way it was before defaults existed
func TestFieldDefRendering(t *testing.T) {
	r := &storage.Relation{
		Fields: []storage.FieldDef{
			{Name: "id", DataType: storage.TypeInt},
			{Name: "name", DataType: storage.TypeVarchar, Len: 255},
		},
	}
	if expect, actual := "&{[{0 id 0} {1 name 255}]}", fmt.Sprintf("%v", r); expect != actual {
		t.Errorf("expected %s, got %s", expect, actual)
	}
}

type defaultsTestDB struct {
	t *testing.T
	s *Session
}

func (db defaultsTestDB) exec(queries ...string) {
	db.t.Helper()
	for _, q := range queries {
		if err := db.s.ExecQuery(q); err != nil {
			db.t.Fatalf("error running query:\n %s\nError: %s", q, err.Error())
		}
	}
}

func (db defaultsTestDB) query(q string) [][]interface{} {
	db.t.Helper()
	stmt, err := parseSQL(q)
	if err != nil {
		db.t.Fatal(err)
	}
	rows, _, err := EvaluateSelect(stmt.(sql.Select), db.s.RelationService)
	if err != nil {
		db.t.Fatal(err)
	}
	var ans [][]interface{}
	for _, row := range rows {
		ans = append(ans, row.Vals)
	}
	return ans
}

func (db defaultsTestDB) expectRows(q string, expect [][]interface{}) {
	db.t.Helper()
	if actual := db.query(q); !reflect.DeepEqual(expect, actual) {
		db.t.Errorf("%s\nexpected: %v\nactual:   %v", q, expect, actual)
	}
}

func (db defaultsTestDB) tables() []string {
	db.t.Helper()
	var ans []string
	for _, row := range db.query(`SELECT table_name FROM sys_pages`) {
		ans = append(ans, row[0].(string))
	}
	return ans
}

func newDefaultsTestDB(t *testing.T, name string) defaultsTestDB {
	db := defaultsTestDB{t: t, s: &Session{}}
	db.exec(`CREATE DATABASE `+name, `USE `+name)
	return db
}

func TestColumnDefaultInsert(t *testing.T) {
	defer storage.ClearDataDir()

	db := newDefaultsTestDB(t, "testdefaults")
	defer db.s.Close()

	db.exec(
		`CREATE TABLE plain (id int, name varchar(20))`,
		`INSERT INTO plain (id) VALUES (1)`,
	)
	// a database that does not use defaults has the catalog it always had
	if expect := []string{"sys_pages", "sys_schema", "plain"}; !reflect.DeepEqual(expect, db.tables()) {
		t.Errorf("expected tables %v, got %v", expect, db.tables())
	}

	db.exec(
		`CREATE TABLE items (
			id int,
			qty int DEFAULT 1,
			big bigint DEFAULT 5000000000,
			name varchar(20) DEFAULT 'unnamed',
			active boolean DEFAULT true,
			hidden boolean DEFAULT false,
			note varchar(20),
			nothing int DEFAULT NULL
		)`,
		// every column with a default is left out
		`INSERT INTO items (id) VALUES (1)`,
		// listed columns keep their value
		`INSERT INTO items (id, qty, name, active) VALUES (2, 20, 'two', false)`,
		// several rows in one statement
		`INSERT INTO items (name, id) VALUES ('a', 3), ('b', 4)`,
		// no column list: every column is listed
		`INSERT INTO items VALUES (5, 50, 51, 'five', false, true, 'n', 52)`,
	)

	db.expectRows(`SELECT id, qty, big, name, active, hidden, note, nothing FROM items`, [][]interface{}{
		{int64(1), int64(1), int64(5000000000), "unnamed", true, false, nil, nil},
		{int64(2), int64(20), int64(5000000000), "two", false, false, nil, nil},
		{int64(3), int64(1), int64(5000000000), "a", true, false, nil, nil},
		{int64(4), int64(1), int64(5000000000), "b", true, false, nil, nil},
		{int64(5), int64(50), int64(51), "five", false, true, "n", int64(52)},
	})

	// the defaults table is made on first use, tables without defaults are
	// not affected
	if expect := []string{"sys_pages", "sys_schema", "plain", "items", "sys_defaults"}; !reflect.DeepEqual(expect, db.tables()) {
		t.Errorf("expected tables %v, got %v", expect, db.tables())
	}
	db.exec(`INSERT INTO plain (id) VALUES (2)`)
	db.expectRows(`SELECT id, name FROM plain`, [][]interface{}{
		{int64(1), nil},
		{int64(2), nil},
	})

	// a listed column that is NULL stays NULL
	walEntries, err := db.s.RelationService.Insert("items", []string{"id", "qty", "name"}, []interface{}{int64(6), nil, nil})
	if err != nil {
		t.Fatal(err)
	}
	if err := db.s.RelationService.FlushWALBatch(walEntries); err != nil {
		t.Fatal(err)
	}
	db.expectRows(`SELECT id, qty, name, active FROM items WHERE id = 6`, [][]interface{}{
		{int64(6), nil, nil, true},
	})

	// existing errors are unchanged
	if err := db.s.ExecQuery(`INSERT INTO items (id, qty) VALUES (7)`); err != storage.ErrColCountMismatch {
		t.Errorf("expected ErrColCountMismatch, got %v", err)
	}
	if err := db.s.ExecQuery(`INSERT INTO items (id, qty) VALUES (7, 'x')`); err != storage.ErrTypeMismatch {
		t.Errorf("expected ErrTypeMismatch, got %v", err)
	}

	// defaults survive closing and opening the database
	if err := db.s.Close(); err != nil {
		t.Fatal(err)
	}
	db.s = &Session{}
	db.exec(
		`USE testdefaults`,
		`INSERT INTO items (id) VALUES (8)`,
		`CREATE TABLE more (id int, tag varchar(5) DEFAULT 'm')`,
		`INSERT INTO more (id) VALUES (1)`,
	)
	db.expectRows(`SELECT id, qty, name, active FROM items WHERE id = 8`, [][]interface{}{
		{int64(8), int64(1), "unnamed", true},
	})
	db.expectRows(`SELECT id, tag FROM more`, [][]interface{}{
		{int64(1), "m"},
	})
}

func TestColumnDefaultRefused(t *testing.T) {
	defer storage.ClearDataDir()

	db := newDefaultsTestDB(t, "testdefaultsrefused")
	defer db.s.Close()

	tc := []struct {
		query     string
		expectErr error
	}{
		{query: `CREATE TABLE bad (id int, a int DEFAULT 'x')`, expectErr: storage.ErrTypeMismatch},
		{query: `CREATE TABLE bad (id int, a bigint DEFAULT true)`, expectErr: storage.ErrTypeMismatch},
		{query: `CREATE TABLE bad (id int, a varchar(5) DEFAULT 5)`, expectErr: storage.ErrTypeMismatch},
		{query: `CREATE TABLE bad (id int, a boolean DEFAULT 0)`, expectErr: storage.ErrTypeMismatch},
		{query: `CREATE TABLE bad (id int, a int DEFAULT 3000000000)`, expectErr: storage.ErrIntOutOfRange},
		{query: `CREATE TABLE bad (ok int DEFAULT 1, a varchar(500) DEFAULT '` + strings.Repeat("x", 400) + `')`, expectErr: storage.ErrRowTooLarge},
		{query: `CREATE TABLE sys_defaults (a int DEFAULT 1)`, expectErr: storage.ErrDefaultsTable},
	}
	for _, test := range tc {
		if err := db.s.ExecQuery(test.query); !errors.Is(err, test.expectErr) {
			t.Errorf("%s\nexpected error `%v`, got `%v`", test.query, test.expectErr, err)
		}
	}

	// nothing was made by the refused statements
	if expect := []string{"sys_pages", "sys_schema"}; !reflect.DeepEqual(expect, db.tables()) {
		t.Errorf("expected tables %v, got %v", expect, db.tables())
	}
	if rows := db.query(`SELECT field_name FROM sys_schema WHERE table_name = 'bad'`); len(rows) != 0 {
		t.Errorf("unexpected catalog rows %v", rows)
	}

	db.exec(
		`CREATE TABLE bad (id int, a int DEFAULT 2147483647)`,
		`INSERT INTO bad (id) VALUES (1)`,
	)
	db.expectRows(`SELECT id, a FROM bad`, [][]interface{}{
		{int64(1), int64(2147483647)},
	})
}

// a table called sys_defaults that a user made is not taken for the catalog
func TestColumnDefaultForeignDefaultsTable(t *testing.T) {
	defer storage.ClearDataDir()

	db := newDefaultsTestDB(t, "testdefaultsforeign")
	defer db.s.Close()

	db.exec(
		`CREATE TABLE sys_defaults (a boolean)`,
		`INSERT INTO sys_defaults VALUES (true)`,
		`CREATE TABLE plain (id int, name varchar(20))`,
		`INSERT INTO plain (id) VALUES (1)`,
		`INSERT INTO sys_defaults (a) VALUES (false)`,
	)
	db.expectRows(`SELECT id, name FROM plain`, [][]interface{}{
		{int64(1), nil},
	})

	if err := db.s.ExecQuery(`CREATE TABLE other (id int DEFAULT 1)`); !errors.Is(err, storage.ErrDefaultsTable) {
		t.Errorf("expected error `%v`, got `%v`", storage.ErrDefaultsTable, err)
	}
	if expect := []string{"sys_pages", "sys_schema", "sys_defaults", "plain"}; !reflect.DeepEqual(expect, db.tables()) {
		t.Errorf("expected tables %v, got %v", expect, db.tables())
	}
}

// enough defaults to make the defaults table grow beyond its first page
func TestColumnDefaultManyDefaults(t *testing.T) {
	defer storage.ClearDataDir()

	db := newDefaultsTestDB(t, "testdefaultsmany")
	defer db.s.Close()

	const tables, cols = 12, 30

	for i := 0; i < tables; i++ {
		var defs []string
		for j := 0; j < cols; j++ {
			defs = append(defs, fmt.Sprintf("c%d int DEFAULT %d", j, i*100+j))
		}
		db.exec(fmt.Sprintf(`CREATE TABLE t%d (id int, %s)`, i, strings.Join(defs, ", ")))
	}

	if rows := db.query(`SELECT table_name FROM sys_defaults`); len(rows) != tables*cols {
		t.Fatalf("expected %d defaults, got %d", tables*cols, len(rows))
	}

	for i := 0; i < tables; i++ {
		db.exec(fmt.Sprintf(`INSERT INTO t%d (id) VALUES (1)`, i))
		db.expectRows(fmt.Sprintf(`SELECT id, c0, c%d FROM t%d`, cols-1, i), [][]interface{}{
			{int64(1), int64(i * 100), int64(i*100 + cols - 1)},
		})
	}
}

// defaults are rows of a table, an edited row of the wrong type is an error
// rather than a panic
func TestColumnDefaultEditedCatalog(t *testing.T) {
	defer storage.ClearDataDir()

	db := newDefaultsTestDB(t, "testdefaultsedited")
	defer db.s.Close()

	db.exec(
		`CREATE TABLE items (id int, qty int DEFAULT 1, name varchar(10))`,
		`INSERT INTO sys_defaults (table_name, field_name, str_default) VALUES ('items', 'name', 'n')`,
		`INSERT INTO items (id) VALUES (1)`,
	)
	db.expectRows(`SELECT id, qty, name FROM items`, [][]interface{}{
		{int64(1), int64(1), "n"},
	})

	db.exec(`UPDATE sys_defaults SET int_default = 9 WHERE field_name = 'name'`)
	db.exec(`DELETE FROM sys_defaults WHERE field_name = 'qty'`)
	db.exec(`INSERT INTO sys_defaults (table_name, field_name, str_default) VALUES ('items', 'qty', 'oops')`)

	if err := db.s.ExecQuery(`INSERT INTO items (id) VALUES (2)`); err != storage.ErrTypeMismatch {
		t.Errorf("expected ErrTypeMismatch, got %v", err)
	}
	db.exec(`INSERT INTO items (id, qty, name) VALUES (3, 3, 'three')`)
	db.expectRows(`SELECT id, qty, name FROM items`, [][]interface{}{
		{int64(1), int64(1), "n"},
		{int64(3), int64(3), "three"},
	})
}
