package engine

import (
	"errors"
	"reflect"
	"testing"

	"github.com/mk6i/mkdb/sql"
	"github.com/mk6i/mkdb/storage"
)

func parseDelete(t *testing.T, q string) sql.DeleteStatementSearched {
	t.Helper()
	stmt, err := parseSQL(q)
	if err != nil {
		t.Fatalf("unable to parse `%s`: %s", q, err.Error())
	}
	del, ok := stmt.(sql.DeleteStatementSearched)
	if !ok {
		t.Fatalf("expected a DELETE statement, got %T", stmt)
	}
	return del
}

func TestParseDeleteLimit(t *testing.T) {
	tc := []struct {
		query       string
		expectLimit int
		expectOn    bool
		expectWhere bool
	}{
		{query: `DELETE FROM tbl1`},
		{query: `DELETE FROM tbl1 WHERE val = 'c'`, expectWhere: true},
		{query: `DELETE FROM tbl1 LIMIT 2`, expectOn: true, expectLimit: 2},
		{query: `DELETE FROM tbl1 LIMIT 0;`, expectOn: true, expectLimit: 0},
		{query: `delete from tbl1 where val = 'c' limit 7`, expectOn: true, expectLimit: 7, expectWhere: true},
	}
	for _, test := range tc {
		t.Run(test.query, func(t *testing.T) {
			del := parseDelete(t, test.query)
			if del.TableName != "tbl1" {
				t.Errorf("unexpected table name %s", del.TableName)
			}
			if del.LimitActive != test.expectOn || del.Limit != test.expectLimit {
				t.Errorf("expected limit %v/%d, got %v/%d", test.expectOn, test.expectLimit, del.LimitActive, del.Limit)
			}
			if (del.WhereClause != nil) != test.expectWhere {
				t.Errorf("unexpected where clause: %v", del.WhereClause)
			}
		})
	}
}

func TestParseDeleteLimitErrors(t *testing.T) {
	tc := []struct {
		query     string
		expectErr error
	}{
		{query: `DELETE FROM tbl1 LIMIT`, expectErr: sql.ErrUnexpectedToken},
		{query: `DELETE FROM tbl1 LIMIT 'a'`, expectErr: sql.ErrUnexpectedToken},
		// the scanner has no negative integer literals
		{query: `DELETE FROM tbl1 LIMIT -1`, expectErr: sql.ErrUnexpectedToken},
		{query: `DELETE FROM tbl1 LIMIT 1 LIMIT 2`, expectErr: sql.ErrSyntax},
		{query: `DELETE FROM tbl1 LIMIT 1 OFFSET 2`, expectErr: sql.ErrSyntax},
		{query: `DELETE FROM tbl1 LIMIT 1 WHERE val = 'c'`, expectErr: sql.ErrSyntax},
	}
	for _, test := range tc {
		t.Run(test.query, func(t *testing.T) {
			_, err := parseSQL(test.query)
			if !errors.Is(err, test.expectErr) {
				t.Errorf("expected error `%v`, got `%v`", test.expectErr, err)
			}
		})
	}
}

func TestParseDeleteNegativeLimitToken(t *testing.T) {
	tl := sql.TokenList{}
	for _, tok := range []sql.Token{
		{Type: sql.DELETE},
		{Type: sql.FROM},
		{Type: sql.IDENT, Text: "tbl1"},
		{Type: sql.LIMIT},
		{Type: sql.INT, Text: "-1"},
	} {
		tl.Add(tok)
	}
	p := sql.Parser{TokenList: tl}
	if _, err := p.Parse(); !errors.Is(err, sql.ErrNegativeLimit) {
		t.Errorf("expected error `%v`, got `%v`", sql.ErrNegativeLimit, err)
	}
}

func TestDeleteLimit(t *testing.T) {
	fields := storage.Fields{
		&storage.Field{Column: "val"},
	}
	// the rows are not handed over in row ID order on purpose
	givenRows := func() []*storage.Row {
		return []*storage.Row{
			{RowID: 7, Vals: []interface{}{"c"}},
			{RowID: 1, Vals: []interface{}{"a"}},
			{RowID: 5, Vals: []interface{}{"c"}},
			{RowID: 2, Vals: []interface{}{nil}},
			{RowID: 3, Vals: []interface{}{"c"}},
			{RowID: 4, Vals: []interface{}{"d"}},
		}
	}

	tc := []struct {
		name          string
		query         string
		noRows        bool
		expectDeleted []uint32
	}{
		{
			name:          "limit smaller than the number of matching rows",
			query:         `DELETE FROM tbl1 WHERE val = 'c' LIMIT 2`,
			expectDeleted: []uint32{3, 5},
		},
		{
			name:          "limit equal to the number of matching rows",
			query:         `DELETE FROM tbl1 WHERE val = 'c' LIMIT 3`,
			expectDeleted: []uint32{3, 5, 7},
		},
		{
			name:          "limit larger than the number of matching rows",
			query:         `DELETE FROM tbl1 WHERE val = 'c' LIMIT 100`,
			expectDeleted: []uint32{3, 5, 7},
		},
		{
			name:          "limit without WHERE clause",
			query:         `DELETE FROM tbl1 LIMIT 4`,
			expectDeleted: []uint32{1, 2, 3, 4},
		},
		{
			name:  "limit zero deletes nothing",
			query: `DELETE FROM tbl1 LIMIT 0`,
		},
		{
			name:  "no row matches",
			query: `DELETE FROM tbl1 WHERE val = 'zzz' LIMIT 2`,
		},
		{
			name:   "empty table",
			query:  `DELETE FROM tbl1 LIMIT 2`,
			noRows: true,
		},
		{
			name:          "no limit keeps the order of the scan",
			query:         `DELETE FROM tbl1 WHERE val = 'c'`,
			expectDeleted: []uint32{7, 5, 3},
		},
	}

	for _, test := range tc {
		t.Run(test.name, func(t *testing.T) {
			var actualDeleted []uint32
			flushed := 0

			rows := givenRows()
			if test.noRows {
				rows = nil
			}

			rm := &mockRelationManager{
				fetch: func(tableName string) ([]*storage.Row, []*storage.Field, error) {
					return rows, fields, nil
				},
				markDeleted: func(tableName string, rowID uint32) (storage.WALBatch, error) {
					actualDeleted = append(actualDeleted, rowID)
					return storage.WALBatch{&storage.WALEntry{}}, nil
				},
				flushWALBatch: func(batch storage.WALBatch) error {
					flushed++
					if len(batch) != len(actualDeleted) {
						t.Errorf("expected %d log entries, got %d", len(actualDeleted), len(batch))
					}
					return nil
				},
			}

			count, err := EvaluateDelete(parseDelete(t, test.query), rm)
			if err != nil {
				t.Fatalf("unexpected error: %s", err.Error())
			}
			if count != len(test.expectDeleted) {
				t.Errorf("expected count %d, got %d", len(test.expectDeleted), count)
			}
			if !reflect.DeepEqual(test.expectDeleted, actualDeleted) {
				t.Errorf("deleted row IDs do not match. expected: %v actual: %v", test.expectDeleted, actualDeleted)
			}
			if flushed != 1 {
				t.Errorf("expected one log flush, got %d", flushed)
			}
			if !test.noRows && !reflect.DeepEqual(givenRows(), rows) {
				t.Errorf("fetched rows were reordered: %v", rows)
			}
		})
	}
}

func TestDeleteLimitNegative(t *testing.T) {
	rm := &mockRelationManager{
		fetch: func(tableName string) ([]*storage.Row, []*storage.Field, error) {
			return []*storage.Row{{RowID: 1, Vals: []interface{}{"a"}}}, storage.Fields{&storage.Field{Column: "val"}}, nil
		},
		markDeleted: func(tableName string, rowID uint32) (storage.WALBatch, error) {
			t.Errorf("nothing should be deleted")
			return nil, nil
		},
		flushWALBatch: func(batch storage.WALBatch) error {
			t.Errorf("nothing should be flushed")
			return nil
		},
	}

	q := sql.DeleteStatementSearched{TableName: "tbl1", LimitActive: true, Limit: -1}
	count, err := EvaluateDelete(q, rm)
	if !errors.Is(err, sql.ErrNegativeLimit) {
		t.Errorf("expected error `%v`, got `%v`", sql.ErrNegativeLimit, err)
	}
	if count != 0 {
		t.Errorf("expected count 0, got %d", count)
	}
}

func TestDeleteLimitFetchAndFilterErrors(t *testing.T) {
	errFetch := errors.New("fetch failed")
	rm := &mockRelationManager{
		fetch: func(tableName string) ([]*storage.Row, []*storage.Field, error) {
			if tableName == "missing" {
				return nil, nil, errFetch
			}
			return []*storage.Row{{RowID: 1, Vals: []interface{}{"a"}}}, storage.Fields{&storage.Field{Column: "val"}}, nil
		},
		markDeleted: func(tableName string, rowID uint32) (storage.WALBatch, error) {
			t.Errorf("nothing should be deleted")
			return nil, nil
		},
		flushWALBatch: func(batch storage.WALBatch) error {
			t.Errorf("nothing should be flushed")
			return nil
		},
	}

	if _, err := EvaluateDelete(parseDelete(t, `DELETE FROM missing LIMIT 1`), rm); !errors.Is(err, errFetch) {
		t.Errorf("expected error `%v`, got `%v`", errFetch, err)
	}
	if _, err := EvaluateDelete(parseDelete(t, `DELETE FROM tbl1 WHERE nope = 1 LIMIT 1`), rm); !errors.Is(err, storage.ErrFieldNotFound) {
		t.Errorf("expected error `%v`, got `%v`", storage.ErrFieldNotFound, err)
	}
}

func TestDeleteLimitIntegration(t *testing.T) {
	defer storage.ClearDataDir()

	s := Session{}
	defer s.Close()

	queries := []string{
		`CREATE DATABASE testdeletelimit`,
		`USE testdeletelimit`,
		`CREATE TABLE nums (n int, tag varchar(10))`,
		`INSERT INTO nums VALUES (1, 'a'), (2, 'b'), (3, 'a'), (4, 'a'), (5, 'b'), (6, 'a')`,
		`DELETE FROM nums WHERE tag = 'a' LIMIT 2`,
	}
	for _, q := range queries {
		if err := s.ExecQuery(q); err != nil {
			t.Fatalf("error running query:\n %s\nError: %s", q, err.Error())
		}
	}

	remaining := func() []int64 {
		stmt, err := parseSQL(`SELECT n FROM nums`)
		if err != nil {
			t.Fatal(err)
		}
		rows, _, err := EvaluateSelect(stmt.(sql.Select), s.RelationService)
		if err != nil {
			t.Fatal(err)
		}
		var ans []int64
		for _, row := range rows {
			ans = append(ans, row.Vals[0].(int64))
		}
		return ans
	}

	if expect := []int64{2, 4, 5, 6}; !reflect.DeepEqual(expect, remaining()) {
		t.Errorf("expected remaining rows %v, got %v", expect, remaining())
	}

	if err := s.ExecQuery(`DELETE FROM nums LIMIT 0`); err != nil {
		t.Fatal(err)
	}
	if expect := []int64{2, 4, 5, 6}; !reflect.DeepEqual(expect, remaining()) {
		t.Errorf("expected remaining rows %v, got %v", expect, remaining())
	}

	if err := s.ExecQuery(`DELETE FROM nums LIMIT -3`); err == nil {
		t.Errorf("expected an error for a negative limit")
	}
	if expect := []int64{2, 4, 5, 6}; !reflect.DeepEqual(expect, remaining()) {
		t.Errorf("expected remaining rows %v, got %v", expect, remaining())
	}

	if err := s.ExecQuery(`DELETE FROM nums LIMIT 3`); err != nil {
		t.Fatal(err)
	}
	if expect := []int64{6}; !reflect.DeepEqual(expect, remaining()) {
		t.Errorf("expected remaining rows %v, got %v", expect, remaining())
	}

	if err := s.ExecQuery(`DELETE FROM nums LIMIT 10`); err != nil {
		t.Fatal(err)
	}
	if len(remaining()) != 0 {
		t.Errorf("expected an empty table, got %v", remaining())
	}

	// empty table
	if err := s.ExecQuery(`DELETE FROM nums LIMIT 10`); err != nil {
		t.Fatal(err)
	}
}
