package engine

import (
	"errors"
	"fmt"
	"reflect"
	"testing"

	"github.com/mk6i/mkdb/sql"
	"github.com/mk6i/mkdb/storage"
)

func TestParseShowTables(t *testing.T) {
	for _, q := range []string{`SHOW TABLES`, `show tables`, `Show Tables;`} {
		stmt, err := parseSQL(q)
		if err != nil {
			t.Errorf("%s: unexpected error: %s", q, err.Error())
			continue
		}
		if !reflect.DeepEqual(sql.ShowTables{}, stmt) {
			t.Errorf("%s: unexpected statement %#v", q, stmt)
		}
	}

	for _, q := range []string{
		`SHOW`,
		`SHOW TABLE`,
		`SHOW TABLES people`,
		`SHOW TABLES FROM testdb`,
		`SHOW TABLES, DATABASES`,
		`SHOW TABLESS`,
	} {
		if _, err := parseSQL(q); err == nil {
			t.Errorf("%s: expected a parse error", q)
		}
	}

	// what parsed before parses the same way
	for _, q := range []string{`SHOW DATABASE`, `SHOW DATABASES`, `show databases;`} {
		stmt, err := parseSQL(q)
		if err != nil {
			t.Errorf("%s: unexpected error: %s", q, err.Error())
			continue
		}
		if !reflect.DeepEqual(sql.ShowDatabase{}, stmt) {
			t.Errorf("%s: unexpected statement %#v", q, stmt)
		}
	}

	// tables is not a reserved word
	stmt, err := parseSQL(`SELECT tables FROM tables`)
	if err != nil {
		t.Fatalf("unexpected error: %s", err.Error())
	}
	expFrom := sql.FromClause{sql.TableName{Name: "tables"}}
	if sel, ok := stmt.(sql.Select); !ok || !reflect.DeepEqual(expFrom, sel.FromClause) {
		t.Errorf("unexpected statement %#v", stmt)
	}
}

type mockTableLister struct {
	tables []string
	err    error
	calls  []string
}

func (m *mockTableLister) StartTxn() {
	m.calls = append(m.calls, "start")
}

func (m *mockTableLister) EndTxn() {
	m.calls = append(m.calls, "end")
}

func (m *mockTableLister) ListTables() ([]string, error) {
	m.calls = append(m.calls, "list")
	return m.tables, m.err
}

func TestEvaluateShowTables(t *testing.T) {
	errList := errors.New("list failed")
	expFields := []*storage.Field{{Column: "Name"}}
	expCalls := []string{"start", "list", "end"}

	tc := []struct {
		name         string
		tl           *mockTableLister
		expectRows   []*storage.Row
		expectFields []*storage.Field
		expectErr    error
	}{
		{
			name: "tables keep the order of the storage layer",
			tl:   &mockTableLister{tables: []string{"people", "cars", "boats"}},
			expectRows: []*storage.Row{
				{RowID: 0, Vals: []interface{}{"people"}},
				{RowID: 1, Vals: []interface{}{"cars"}},
				{RowID: 2, Vals: []interface{}{"boats"}},
			},
			expectFields: expFields,
		},
		{
			name:         "no tables",
			tl:           &mockTableLister{},
			expectRows:   []*storage.Row{},
			expectFields: expFields,
		},
		{
			name:      "storage error",
			tl:        &mockTableLister{tables: []string{"people"}, err: errList},
			expectErr: errList,
		},
	}

	for _, test := range tc {
		t.Run(test.name, func(t *testing.T) {
			rows, fields, err := EvaluateShowTables(sql.ShowTables{}, test.tl)
			if !errors.Is(err, test.expectErr) {
				t.Errorf("expected error `%v`, got `%v`", test.expectErr, err)
			}
			if !reflect.DeepEqual(test.expectRows, rows) {
				t.Errorf("rows do not match. expected: %s actual: %s", test.expectRows, rows)
			}
			if !reflect.DeepEqual(test.expectFields, fields) {
				t.Errorf("fields do not match. expected: %s actual: %s", test.expectFields, fields)
			}
			// the lock is released on every path
			if !reflect.DeepEqual(expCalls, test.tl.calls) {
				t.Errorf("calls do not match. expected: %v actual: %v", expCalls, test.tl.calls)
			}
		})
	}
}

func showTablesTestExec(t *testing.T, s *Session, queries ...string) {
	t.Helper()
	for _, q := range queries {
		if err := s.ExecQuery(q); err != nil {
			t.Fatalf("error running query:\n %s\nError: %s", q, err.Error())
		}
	}
}

func showTablesTestList(t *testing.T, s *Session) []string {
	t.Helper()
	// the statement runs through the session
	showTablesTestExec(t, s, `SHOW TABLES`)
	rows, fields, err := EvaluateShowTables(sql.ShowTables{}, s.RelationService)
	if err != nil {
		t.Fatalf("error listing tables: %s", err.Error())
	}
	if !reflect.DeepEqual([]*storage.Field{{Column: "Name"}}, fields) {
		t.Errorf("unexpected fields %s", fields)
	}
	tables := []string{}
	for _, row := range rows {
		tables = append(tables, row.Vals[0].(string))
	}
	return tables
}

func TestShowTablesSession(t *testing.T) {
	defer storage.ClearDataDir()

	s := Session{}

	if err := s.ExecQuery(`SHOW TABLES`); err == nil {
		t.Errorf("expected an error without a selected database")
	}

	showTablesTestExec(t, &s, `CREATE DATABASE testshowtables`, `CREATE DATABASE testshowtables2`)

	if err := s.ExecQuery(`SHOW TABLES`); err == nil {
		t.Errorf("expected an error without a selected database")
	}

	showTablesTestExec(t, &s, `USE testshowtables`)
	defer func() { s.Close() }()

	// the catalog tables are not user tables
	if tables := showTablesTestList(t, &s); len(tables) != 0 {
		t.Errorf("expected no tables in a new database, got %v", tables)
	}

	// creation order is not alphabetical order
	exp := []string{"people", "cars", "tables", "boats"}
	showTablesTestExec(t, &s,
		`CREATE TABLE people (person_id int, first_name varchar(255))`,
		`CREATE TABLE cars (name varchar(255))`,
		`CREATE TABLE tables (name varchar(255))`,
		`CREATE TABLE boats (name varchar(255), afloat boolean, length bigint)`,
	)
	if tables := showTablesTestList(t, &s); !reflect.DeepEqual(exp, tables) {
		t.Errorf("tables do not match. expected: %v actual: %v", exp, tables)
	}

	// a refused CREATE TABLE adds nothing
	if err := s.ExecQuery(`CREATE TABLE cars (name varchar(255))`); err != storage.ErrTableAlreadyExist {
		t.Errorf("expected ErrTableAlreadyExist, got %v", err)
	}
	if tables := showTablesTestList(t, &s); !reflect.DeepEqual(exp, tables) {
		t.Errorf("tables do not match. expected: %v actual: %v", exp, tables)
	}

	// enough tables for the page table to span several pages
	for i := 30; i > 0; i-- {
		name := fmt.Sprintf("tbl_%d", i)
		showTablesTestExec(t, &s, fmt.Sprintf(`CREATE TABLE %s (name varchar(255))`, name))
		exp = append(exp, name)
	}
	if tables := showTablesTestList(t, &s); !reflect.DeepEqual(exp, tables) {
		t.Errorf("tables do not match. expected: %v actual: %v", exp, tables)
	}

	// a table whose root page moves has its page table row rewritten: it keeps
	// its place. rows, including NULLs and deleted rows, do not matter
	for i := 0; i < 5; i++ {
		showTablesTestExec(t, &s, `INSERT INTO people VALUES
			(1, 'John'), (2, 'Ikra'), (3, 'Gerrard'), (4, 'Malia'), (5, 'Willow'),
			(6, 'Mylee'), (7, 'Leland'), (8, 'Chance'), (9, 'Cairo'), (10, 'Khadija')`)
	}
	showTablesTestExec(t, &s, `INSERT INTO boats (name) VALUES ('dinghy')`)
	showTablesTestExec(t, &s, `DELETE FROM people`)
	if tables := showTablesTestList(t, &s); !reflect.DeepEqual(exp, tables) {
		t.Errorf("tables do not match. expected: %v actual: %v", exp, tables)
	}

	// every database has its own tables
	showTablesTestExec(t, &s, `USE testshowtables2`)
	if tables := showTablesTestList(t, &s); len(tables) != 0 {
		t.Errorf("expected no tables in the other database, got %v", tables)
	}
	showTablesTestExec(t, &s, `CREATE TABLE planes (name varchar(255))`)
	if tables := showTablesTestList(t, &s); !reflect.DeepEqual([]string{"planes"}, tables) {
		t.Errorf("unexpected tables in the other database: %v", tables)
	}

	// the order is that of the data file, not of this session
	showTablesTestExec(t, &s, `USE testshowtables`)
	if tables := showTablesTestList(t, &s); !reflect.DeepEqual(exp, tables) {
		t.Errorf("tables do not match after reopening. expected: %v actual: %v", exp, tables)
	}

	// listing changes nothing
	if tables := showTablesTestList(t, &s); !reflect.DeepEqual(exp, tables) {
		t.Errorf("tables do not match on second listing. expected: %v actual: %v", exp, tables)
	}
}
