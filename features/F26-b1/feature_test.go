package engine

import (
	"errors"
	"io"
	"os"
	"path/filepath"
	"reflect"
	"strings"
	"sync"
	"testing"

	"github.com/mk6i/mkdb/sql"
	"github.com/mk6i/mkdb/storage"
)

// captureStdout returns what fn prints.
func captureStdout(t *testing.T, fn func()) string {
	t.Helper()
	old := os.Stdout
	r, w, err := os.Pipe()
	if err != nil {
		t.Fatal(err)
	}
	os.Stdout = w
	done := make(chan string)
	go func() {
		b, _ := io.ReadAll(r)
		done <- string(b)
	}()
	fn()
	os.Stdout = old
	w.Close()
	return <-done
}

func TestParseShowStats(t *testing.T) {
	for _, q := range []string{"SHOW STATS", "show stats", "Show Stats;"} {
		stmt, err := parseSQL(q)
		if err != nil {
			t.Fatalf("%q: unexpected error: %s", q, err)
		}
		if _, ok := stmt.(sql.ShowStats); !ok {
			t.Fatalf("%q: expected sql.ShowStats, got %T", q, stmt)
		}
	}

	// the statements that existed before still parse to the same thing
	for _, q := range []string{"SHOW DATABASE", "SHOW DATABASES", "show databases;"} {
		stmt, err := parseSQL(q)
		if err != nil {
			t.Fatalf("%q: unexpected error: %s", q, err)
		}
		if _, ok := stmt.(sql.ShowDatabase); !ok {
			t.Fatalf("%q: expected sql.ShowDatabase, got %T", q, stmt)
		}
	}

	for _, q := range []string{"SHOW", "SHOW STATS extra", "SHOW STATS STATS", "SHOW STAT", "SHOW 'stats'", "SHOW STATS;;"} {
		if _, err := parseSQL(q); !errors.Is(err, sql.ErrSyntax) {
			t.Errorf("%q: expected a syntax error, got %v", q, err)
		}
	}
}

// stats is not a reserved word: it is still a valid name.
func TestStatsIsNotReserved(t *testing.T) {
	stmt, err := parseSQL("SELECT stats FROM stats")
	if err != nil {
		t.Fatalf("unexpected error: %s", err)
	}
	sel, ok := stmt.(sql.Select)
	if !ok {
		t.Fatalf("expected sql.Select, got %T", stmt)
	}
	if got := sel.FromClause[0].(sql.TableName).Name; got != "stats" {
		t.Fatalf("expected table stats, got %v", got)
	}
}

type mockStatsReader struct {
	st  storage.Stats
	err error
}

func (m mockStatsReader) Stats() (storage.Stats, error) {
	return m.st, m.err
}

func TestEvaluateShowStats(t *testing.T) {
	rows, fields, err := EvaluateShowStats(sql.ShowStats{}, mockStatsReader{
		st: storage.Stats{CachedPages: 7, DirtyPages: 2, FileSize: 12288, NextLSN: 1<<64 - 1},
	})
	if err != nil {
		t.Fatal(err)
	}
	var names []string
	for _, f := range fields {
		names = append(names, f.String())
	}
	if exp := []string{"cached_pages", "dirty_pages", "file_size", "next_lsn"}; !reflect.DeepEqual(exp, names) {
		t.Fatalf("expected fields %v, got %v", exp, names)
	}
	if len(rows) != 1 {
		t.Fatalf("expected 1 row, got %d", len(rows))
	}
	exp := []interface{}{int64(7), int64(2), int64(12288), uint64(1<<64 - 1)}
	if !reflect.DeepEqual(exp, rows[0].Vals) {
		t.Fatalf("expected %v, got %v", exp, rows[0].Vals)
	}

	boom := errors.New("boom")
	rows, fields, err = EvaluateShowStats(sql.ShowStats{}, mockStatsReader{err: boom})
	if err != boom {
		t.Fatalf("expected the error of Stats, got %v", err)
	}
	if rows != nil || fields != nil {
		t.Fatal("expected no result next to an error")
	}
}

func TestShowStatsNeedsDatabase(t *testing.T) {
	defer storage.ClearDataDir()
	s := Session{}
	err := s.ExecQuery("SHOW STATS")
	if err == nil || err.Error() != "please select a database" {
		t.Fatalf("expected `please select a database`, got %v", err)
	}

	// no panic on a service that was never opened
	var rs *storage.RelationService
	if _, err := rs.Stats(); err != storage.ErrDBNotSelected {
		t.Fatalf("expected ErrDBNotSelected, got %v", err)
	}
	if _, err := (&storage.RelationService{}).Stats(); err != storage.ErrDBNotSelected {
		t.Fatalf("expected ErrDBNotSelected, got %v", err)
	}
}

func TestShowStats(t *testing.T) {
	defer storage.ClearDataDir()

	s := Session{}
	defer s.Close()

	exec := func(q string) {
		t.Helper()
		if err := s.ExecQuery(q); err != nil {
			t.Fatalf("error running query:\n %s\nError: %s", q, err.Error())
		}
	}

	exec(`CREATE DATABASE teststats`)
	exec(`USE teststats`)

	// empty database: nothing read yet, nothing changed, the file holds the
	// header page and the two catalog pages
	st, err := s.RelationService.Stats()
	if err != nil {
		t.Fatal(err)
	}
	if st.CachedPages != 0 || st.DirtyPages != 0 {
		t.Errorf("fresh database: expected an empty cache, got %+v", st)
	}
	if st.FileSize != 3*4096 {
		t.Errorf("fresh database: expected a file of 3 pages, got %d bytes", st.FileSize)
	}
	tblPath := filepath.Join("data", "teststats", "tbl")
	if info, err := os.Stat(tblPath); err != nil {
		t.Fatal(err)
	} else if info.Size() != st.FileSize {
		t.Errorf("expected the size of %s (%d), got %d", tblPath, info.Size(), st.FileSize)
	}

	exec(`CREATE TABLE t (id int, name varchar(255))`)
	// CREATE TABLE flushes before it returns
	st, err = s.RelationService.Stats()
	if err != nil {
		t.Fatal(err)
	}
	if st.DirtyPages != 0 {
		t.Errorf("after create table: expected no dirty page, got %+v", st)
	}
	if st.CachedPages < 3 {
		t.Errorf("after create table: expected the catalog and the new table in the cache, got %+v", st)
	}
	if st.FileSize != 4*4096 {
		t.Errorf("after create table: expected a file of 4 pages, got %d bytes", st.FileSize)
	}
	lsnBefore := st.NextLSN

	exec(`INSERT INTO t VALUES (1, 'a')`)
	exec(`INSERT INTO t (id) VALUES (2)`) // name is NULL
	exec(`INSERT INTO t VALUES (3, 'c')`)
	st, err = s.RelationService.Stats()
	if err != nil {
		t.Fatal(err)
	}
	if st.NextLSN != lsnBefore+3 {
		t.Errorf("expected 3 inserts to take 3 LSNs (%d -> %d), got %d", lsnBefore, lsnBefore+3, st.NextLSN)
	}
	if st.DirtyPages < 0 || st.DirtyPages > st.CachedPages {
		t.Errorf("dirty pages out of range: %+v", st)
	}

	// reading the counters changes none of them
	st2, err := s.RelationService.Stats()
	if err != nil {
		t.Fatal(err)
	}
	if st2.CachedPages != st.CachedPages || st2.NextLSN != st.NextLSN || st2.FileSize != st.FileSize {
		t.Errorf("expected a second reading to agree with the first, got %+v and %+v", st, st2)
	}

	out := captureStdout(t, func() {
		exec(`SHOW STATS`)
	})
	for _, exp := range []string{"[cached_pages]", "[dirty_pages]", "[file_size]", "[next_lsn]", "16384", "1 result(s) returned"} {
		if !strings.Contains(out, exp) {
			t.Errorf("expected the output of SHOW STATS to contain %q, got:\n%s", exp, out)
		}
	}

	// the statement leaves the data as it was
	rows, _, err := EvaluateSelect(mustSelect(t, `SELECT id, name FROM t`), s.RelationService)
	if err != nil {
		t.Fatal(err)
	}
	if len(rows) != 3 || rows[1].Vals[1] != nil {
		t.Errorf("unexpected table content after SHOW STATS: %v", rows)
	}
}

func mustSelect(t *testing.T, q string) sql.Select {
	t.Helper()
	stmt, err := parseSQL(q)
	if err != nil {
		t.Fatal(err)
	}
	return stmt.(sql.Select)
}

// Stats can be called while statements and the flush timer run (go test -race).
func TestStatsConcurrentWithStatements(t *testing.T) {
	defer storage.ClearDataDir()

	s := Session{}
	defer s.Close()
	for _, q := range []string{
		`CREATE DATABASE teststatsrace`,
		`USE teststatsrace`,
		`CREATE TABLE t (id int)`,
	} {
		if err := s.ExecQuery(q); err != nil {
			t.Fatal(err)
		}
	}
	rs := s.RelationService

	var wg sync.WaitGroup
	stop := make(chan struct{})
	wg.Add(1)
	go func() {
		defer wg.Done()
		var last uint64
		for {
			select {
			case <-stop:
				return
			default:
			}
			st, err := rs.Stats()
			if err != nil {
				t.Error(err)
				return
			}
			if st.NextLSN < last {
				t.Errorf("next LSN went backwards: %d after %d", st.NextLSN, last)
				return
			}
			if st.DirtyPages > st.CachedPages {
				t.Errorf("more dirty than cached pages: %+v", st)
				return
			}
			last = st.NextLSN
		}
	}()

	for i := 0; i < 200; i++ {
		if err := s.ExecQuery(`INSERT INTO t VALUES (1)`); err != nil {
			t.Fatal(err)
		}
	}
	close(stop)
	wg.Wait()
}

func TestStatsAfterClose(t *testing.T) {
	defer storage.ClearDataDir()
	s := Session{}
	for _, q := range []string{`CREATE DATABASE teststatsclosed`, `USE teststatsclosed`} {
		if err := s.ExecQuery(q); err != nil {
			t.Fatal(err)
		}
	}
	if err := s.Close(); err != nil {
		t.Fatal(err)
	}
	// the file is closed: an error, not a panic
	if _, err := s.RelationService.Stats(); err == nil {
		t.Fatal("expected an error from Stats on a closed database")
	}
	if err := s.ExecQuery(`SHOW STATS`); err == nil {
		t.Fatal("expected an error from SHOW STATS on a closed database")
	}
}
