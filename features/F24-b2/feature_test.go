package main

import (
	"errors"
	"flag"
	"io"
	"reflect"
	"strings"
	"testing"

	"github.com/mk6i/mkdb/storage"
)

type dryRunResult struct {
	inserted [][]interface{}
	flushes  int
	ok       int
	errs     []string
}

// dryRunImport runs an import over input and records what reached the
// relation manager and what was reported.
func dryRunImport(cfg importCfg, r io.Reader) dryRunResult {
	var res dryRunResult

	rm := &mockRelationManager{
		insert: func(tableName string, cols []string, vals []interface{}) (storage.WALBatch, error) {
			res.inserted = append(res.inserted, vals)
			return []*storage.WALEntry{}, nil
		},
		flushWALBatch: func(batch storage.WALBatch) error {
			res.flushes++
			return nil
		},
	}

	chOk, chErr := doBatchInsert(rm, cfg, r)
	for chOk != nil || chErr != nil {
		select {
		case _, ok := <-chOk:
			if ok {
				res.ok++
			} else {
				chOk = nil
			}
		case err, ok := <-chErr:
			if ok {
				res.errs = append(res.errs, err.Error())
			} else {
				chErr = nil
			}
		}
	}

	return res
}

func dryRunCfg(dryRun bool) importCfg {
	return importCfg{
		table:   "author",
		dryRun:  dryRun,
		dstCols: []string{"name", "age", "active", "visits"},
		srcCols: []int{0, 1, 2, 3},
		colTypes: []storage.DataType{
			storage.TypeVarchar,
			storage.TypeInt,
			storage.TypeBoolean,
			storage.TypeBigInt,
		},
		separator: ',',
	}
}

const dryRunInput = `Person1,10,true,100
Person2,\N,f,\N
Per"son3,30,true,1
Person4,Foo,true,1
Person5,40,maybe,1
Person6,50,true,9223372036854775808
Person7
\N,\N,\N,\N,extra
`

func TestDryRunStoresNothing(t *testing.T) {
	res := dryRunImport(dryRunCfg(true), strings.NewReader(dryRunInput))
	if len(res.inserted) != 0 {
		t.Fatalf("dry run inserted rows: %v", res.inserted)
	}
	if res.flushes != 0 {
		t.Fatalf("dry run flushed the WAL %d time(s)", res.flushes)
	}
	if res.ok != 3 {
		t.Fatalf("expected 3 good records, got %d", res.ok)
	}
	if len(res.errs) != 5 {
		t.Fatalf("expected 5 errors, got %v", res.errs)
	}
}

// the dry run reports the same good records and the same errors, in the same
// order and with the same text, as the import.
func TestDryRunReportsLikeRealRun(t *testing.T) {
	dry := dryRunImport(dryRunCfg(true), strings.NewReader(dryRunInput))
	full := dryRunImport(dryRunCfg(false), strings.NewReader(dryRunInput))

	if dry.ok != full.ok {
		t.Errorf("ok count differs. dry run: %d import: %d", dry.ok, full.ok)
	}
	if !reflect.DeepEqual(dry.errs, full.errs) {
		t.Errorf("errors differ.\ndry run: %v\nimport: %v", dry.errs, full.errs)
	}

	// the import itself is what it was
	expect := [][]interface{}{
		{"Person1", int64(10), true, int64(100)},
		{"Person2", nil, false, nil},
		{nil, nil, nil, nil},
	}
	if !reflect.DeepEqual(expect, full.inserted) {
		t.Errorf("imported rows do not match. expected: %v actual: %v", expect, full.inserted)
	}
	if full.flushes != len(expect) {
		t.Errorf("expected %d flushes, got %d", len(expect), full.flushes)
	}
}

func TestDryRunEmptyInput(t *testing.T) {
	res := dryRunImport(dryRunCfg(true), strings.NewReader(""))
	if res.ok != 0 || len(res.errs) != 0 || len(res.inserted) != 0 || res.flushes != 0 {
		t.Fatalf("expected nothing to happen: %+v", res)
	}
}

// the relation manager is not used at all in a dry run, not even to take the
// transaction lock.
func TestDryRunLeavesRelationManagerAlone(t *testing.T) {
	chOk, chErr := doBatchInsert(nil, dryRunCfg(true), strings.NewReader("Person1,10,true,100\n"))
	total := 0
	for chOk != nil || chErr != nil {
		select {
		case _, ok := <-chOk:
			if ok {
				total++
			} else {
				chOk = nil
			}
		case err, ok := <-chErr:
			if ok {
				t.Fatalf("unexpected error: %s", err.Error())
			}
			chErr = nil
		}
	}
	if total != 1 {
		t.Fatalf("expected 1 good record, got %d", total)
	}
}

type dryRunFailingReader struct {
	data io.Reader
	err  error
}

func (f *dryRunFailingReader) Read(p []byte) (int, error) {
	n, err := f.data.Read(p)
	if err == io.EOF {
		return n, f.err
	}
	return n, err
}

func TestDryRunReadError(t *testing.T) {
	errBroken := errors.New("broken pipe")
	var got [2]dryRunResult
	for i, dryRun := range []bool{true, false} {
		r := &dryRunFailingReader{data: strings.NewReader("Person1,10,true,100\n"), err: errBroken}
		got[i] = dryRunImport(dryRunCfg(dryRun), r)
	}
	if got[0].ok != 1 || len(got[0].errs) != 1 || !strings.Contains(got[0].errs[0], errBroken.Error()) {
		t.Fatalf("unexpected dry run result: %+v", got[0])
	}
	if got[0].ok != got[1].ok || !reflect.DeepEqual(got[0].errs, got[1].errs) {
		t.Fatalf("dry run and import differ. dry run: %+v import: %+v", got[0], got[1])
	}
}

// a column list that does not match the value list fails every INSERT. the
// dry run says so as well.
func TestDryRunColumnCountMismatch(t *testing.T) {
	var got [2]dryRunResult
	for i, dryRun := range []bool{true, false} {
		cfg := dryRunCfg(dryRun)
		cfg.srcCols = []int{0, 1}

		var res dryRunResult
		rm := &mockRelationManager{
			insert: func(tableName string, cols []string, vals []interface{}) (storage.WALBatch, error) {
				if len(cols) != len(vals) {
					return nil, storage.ErrColCountMismatch
				}
				res.inserted = append(res.inserted, vals)
				return []*storage.WALEntry{}, nil
			},
			flushWALBatch: func(batch storage.WALBatch) error {
				return nil
			},
		}
		chOk, chErr := doBatchInsert(rm, cfg, strings.NewReader("Person1,10\nPerson2,20\n"))
		for chOk != nil || chErr != nil {
			select {
			case _, ok := <-chOk:
				if ok {
					res.ok++
				} else {
					chOk = nil
				}
			case err, ok := <-chErr:
				if ok {
					if !errors.Is(err, storage.ErrColCountMismatch) {
						t.Fatalf("unexpected error: %s", err.Error())
					}
					res.errs = append(res.errs, err.Error())
				} else {
					chErr = nil
				}
			}
		}
		got[i] = res
	}
	if got[0].ok != 0 || len(got[0].errs) != 2 {
		t.Fatalf("unexpected dry run result: %+v", got[0])
	}
	if !reflect.DeepEqual(got[0], got[1]) {
		t.Fatalf("dry run and import differ. dry run: %+v import: %+v", got[0], got[1])
	}
}

func TestDryRunMessages(t *testing.T) {
	cfg := dryRunCfg(false)
	if got, expect := progressLine(cfg, 200), "inserted 200 record(s) into author"; got != expect {
		t.Errorf("progress does not match. expected: %q actual: %q", expect, got)
	}
	cfg.dryRun = true
	if got, expect := progressLine(cfg, 200), "dry run: checked 200 record(s) for author"; got != expect {
		t.Errorf("progress does not match. expected: %q actual: %q", expect, got)
	}
	expect := "dry run: 12 record(s) can be imported into author, 3 error(s), nothing was stored"
	if got := dryRunSummaryLine(cfg, 12, 3); got != expect {
		t.Errorf("summary does not match. expected: %q actual: %q", expect, got)
	}
}

func TestDryRunMakeConfig(t *testing.T) {
	set := func(name string, val string) {
		old := flag.Lookup(name).Value.String()
		if err := flag.Set(name, val); err != nil {
			t.Fatalf("setting -%s: %s", name, err.Error())
		}
		t.Cleanup(func() { flag.Set(name, old) })
	}
	set("db", "testdb")
	set("table", "author")
	set("dest-cols", "name,age")
	set("src-cols", "0,1")

	rm := &mockRelationManager{
		fetch: func(tableName string) ([]*storage.Row, []*storage.Field, error) {
			if tableName != "sys_schema" {
				return nil, nil, errors.New("expected fetch for `sys_schema`")
			}
			return []*storage.Row{
					{Vals: []interface{}{"author", "name", int64(storage.TypeVarchar)}},
					{Vals: []interface{}{"author", "age", int64(storage.TypeInt)}},
				},
				[]*storage.Field{
					{Column: "table_name"},
					{Column: "field_name"},
					{Column: "field_type"},
				},
				nil
		},
	}

	cfg, err := makeConfig(rm)
	if err != nil {
		t.Fatalf("unexpected error: %s", err.Error())
	}
	if cfg.dryRun {
		t.Fatalf("dry run must be off by default")
	}

	set("dry-run", "true")
	cfg, err = makeConfig(rm)
	if err != nil {
		t.Fatalf("unexpected error: %s", err.Error())
	}
	expect := importCfg{
		colTypes:  []storage.DataType{storage.TypeVarchar, storage.TypeInt},
		db:        "testdb",
		dryRun:    true,
		dstCols:   []string{"name", "age"},
		separator: ',',
		srcCols:   []int{0, 1},
		table:     "author",
	}
	if !reflect.DeepEqual(expect, cfg) {
		t.Fatalf("config does not match. expected: %+v actual: %+v", expect, cfg)
	}

	// the table is still looked up in a dry run
	set("table", "nope")
	if _, err := makeConfig(rm); err == nil {
		t.Fatalf("expected an error for a missing table")
	}
}
