package engine

import (
	"errors"
	"io"
	"os"
	"reflect"
	"strings"
	"testing"

	"github.com/mk6i/mkdb/sql"
	"github.com/mk6i/mkdb/storage"
)

func parseInsert(t *testing.T, q string) sql.InsertStatement {
	t.Helper()
	stmt, err := parseSQL(q)
	if err != nil {
		t.Fatalf("unable to parse `%s`: %s", q, err.Error())
	}
	ins, ok := stmt.(sql.InsertStatement)
	if !ok {
		t.Fatalf("expected an INSERT statement, got %T", stmt)
	}
	return ins
}

func TestInsertCount(t *testing.T) {
	errInsert := errors.New("insert failed")
	errFlush := errors.New("flush failed")

	tc := []struct {
		name          string
		query         string
		failInsertAt  int // 1-based, 0 = never
		failFlush     bool
		expectCount   int
		expectErr     error
		expectInserts [][]interface{}
		expectFlushed int // entries in the flushed batch, -1 = no flush
	}{
		{
			name:          "one row",
			query:         `INSERT INTO tbl1 (id, val) VALUES (1, 'a')`,
			expectCount:   1,
			expectInserts: [][]interface{}{{int64(1), "a"}},
			expectFlushed: 1,
		},
		{
			name:          "several rows",
			query:         `INSERT INTO tbl1 (id, val) VALUES (1, 'a'), (2, 'b'), (3, 'c')`,
			expectCount:   3,
			expectInserts: [][]interface{}{{int64(1), "a"}, {int64(2), "b"}, {int64(3), "c"}},
			expectFlushed: 3,
		},
		{
			name:          "no column list",
			query:         `INSERT INTO tbl1 VALUES (1, 'a'), (2, 'b')`,
			expectCount:   2,
			expectInserts: [][]interface{}{{int64(1), "a"}, {int64(2), "b"}},
			expectFlushed: 2,
		},
		{
			name:          "no rows",
			query:         `INSERT INTO tbl1 (id, val) VALUES`,
			expectCount:   0,
			expectFlushed: 0,
		},
		{
			name:          "a failing row reports no count and flushes nothing",
			query:         `INSERT INTO tbl1 (id, val) VALUES (1, 'a'), (2, 'b'), (3, 'c')`,
			failInsertAt:  2,
			expectCount:   0,
			expectErr:     errInsert,
			expectInserts: [][]interface{}{{int64(1), "a"}, {int64(2), "b"}},
			expectFlushed: -1,
		},
		{
			name:          "a failing flush reports the rows that were inserted",
			query:         `INSERT INTO tbl1 (id, val) VALUES (1, 'a'), (2, 'b')`,
			failFlush:     true,
			expectCount:   2,
			expectErr:     errFlush,
			expectInserts: [][]interface{}{{int64(1), "a"}, {int64(2), "b"}},
			expectFlushed: 2,
		},
	}

	for _, test := range tc {
		t.Run(test.name, func(t *testing.T) {
			q := parseInsert(t, test.query)

			var actualInserts [][]interface{}
			actualFlushed := -1

			rm := &mockRelationManager{
				insert: func(tableName string, cols []string, vals []interface{}) (storage.WALBatch, error) {
					if tableName != "tbl1" {
						t.Errorf("unexpected table %s", tableName)
					}
					if !reflect.DeepEqual(q.ColumnNames, cols) {
						t.Errorf("expected columns %v, got %v", q.ColumnNames, cols)
					}
					actualInserts = append(actualInserts, vals)
					if len(actualInserts) == test.failInsertAt {
						return nil, errInsert
					}
					return storage.WALBatch{&storage.WALEntry{LSN: uint64(len(actualInserts))}}, nil
				},
				flushWALBatch: func(batch storage.WALBatch) error {
					actualFlushed = len(batch)
					for i, entry := range batch {
						if entry.LSN != uint64(i+1) {
							t.Errorf("log entries out of order: %d at %d", entry.LSN, i)
						}
					}
					if test.failFlush {
						return errFlush
					}
					return nil
				},
			}

			count, err := EvaluateInsert(q, rm)

			if !errors.Is(err, test.expectErr) {
				t.Errorf("expected error `%v`, got `%v`", test.expectErr, err)
			}
			if test.expectCount != count {
				t.Errorf("expected count %d, got %d", test.expectCount, count)
			}
			if !reflect.DeepEqual(test.expectInserts, actualInserts) {
				t.Errorf("expected inserts %v, got %v", test.expectInserts, actualInserts)
			}
			if test.expectFlushed != actualFlushed {
				t.Errorf("expected %d flushed entries, got %d", test.expectFlushed, actualFlushed)
			}
		})
	}
}

func TestInsertWithoutValuesList(t *testing.T) {
	rm := &mockRelationManager{
		insert: func(tableName string, cols []string, vals []interface{}) (storage.WALBatch, error) {
			t.Errorf("nothing should be inserted")
			return nil, nil
		},
		flushWALBatch: func(batch storage.WALBatch) error {
			t.Errorf("nothing should be flushed")
			return nil
		},
	}

	count, err := EvaluateInsert(sql.InsertStatement{TableName: "tbl1"}, rm)
	if !errors.Is(err, ErrTmpUnsupportedSyntax) {
		t.Errorf("expected error `%v`, got `%v`", ErrTmpUnsupportedSyntax, err)
	}
	if count != 0 {
		t.Errorf("expected count 0, got %d", count)
	}
}

// captureStdout returns what fn prints.
func captureStdout(t *testing.T, fn func()) string {
	t.Helper()
	r, w, err := os.Pipe()
	if err != nil {
		t.Fatal(err)
	}
	orig := os.Stdout
	os.Stdout = w

	done := make(chan string)
	go func() {
		out, _ := io.ReadAll(r)
		done <- string(out)
	}()

	func() {
		defer func() {
			os.Stdout = orig
			w.Close()
		}()
		fn()
	}()

	out := <-done
	r.Close()
	return out
}

func TestSessionRowCounts(t *testing.T) {
	defer storage.ClearDataDir()

	s := &Session{}
	defer s.Close()

	// no database selected
	if count, err := s.ExecQueryCount(`INSERT INTO people VALUES (1, 'a')`); err == nil || count != 0 {
		t.Errorf("expected an error and no count, got %d, %v", count, err)
	}

	tc := []struct {
		query        string
		expectCount  int
		expectErr    error
		expectOutput string
	}{
		{query: `CREATE DATABASE testinsertcount`, expectOutput: "created database testinsertcount\n\r"},
		{query: `USE testinsertcount`, expectOutput: "selected database testinsertcount\n\r"},
		{query: `CREATE TABLE people (id int, name varchar(20))`, expectOutput: "created table people\n\r"},
		{query: `INSERT INTO people (id, name) VALUES (1, 'a')`, expectCount: 1, expectOutput: "inserted 1 record(s) into people\n\r"},
		{query: `INSERT INTO people VALUES (2, 'b'), (3, 'c'), (4, 'b'), (5, 'b')`, expectCount: 4, expectOutput: "inserted 4 record(s) into people\n\r"},
		{query: `INSERT INTO people (id) VALUES (6)`, expectCount: 1, expectOutput: "inserted 1 record(s) into people\n\r"},
		{query: `INSERT INTO people (id) VALUES`, expectCount: 0, expectOutput: "inserted 0 record(s) into people\n\r"},
		{query: `INSERT INTO nope VALUES (1)`, expectErr: storage.ErrTableNotExist},
		{query: `INSERT INTO people (id, name) VALUES (7)`, expectErr: storage.ErrColCountMismatch},
		{query: `INSERT INTO people VALUES ('x', 'y')`, expectErr: storage.ErrTypeMismatch},
		{query: `SELECT id FROM people`, expectOutput: "6 result(s) returned"},
		{query: `UPDATE people SET name = 'z' WHERE id = 1`, expectOutput: "update successful 1 people\n\r"},
		{query: `DELETE FROM people WHERE name = 'b'`, expectCount: 3, expectOutput: "deleted 3 record(s) into people\n\r"},
		{query: `DELETE FROM people WHERE name = 'b'`, expectCount: 0, expectOutput: "deleted 0 record(s) into people\n\r"},
		{query: `DELETE FROM nope`, expectErr: storage.ErrTableNotExist},
		{query: `SELECT id FROM people`, expectOutput: "3 result(s) returned"},
	}

	for _, test := range tc {
		var count int
		var err error
		out := captureStdout(t, func() {
			count, err = s.ExecQueryCount(test.query)
		})
		if !errors.Is(err, test.expectErr) {
			t.Errorf("%s\nexpected error `%v`, got `%v`", test.query, test.expectErr, err)
		}
		if test.expectCount != count {
			t.Errorf("%s\nexpected count %d, got %d", test.query, test.expectCount, count)
		}
		if !strings.Contains(out, test.expectOutput) {
			t.Errorf("%s\nexpected output to contain %q, got %q", test.query, test.expectOutput, out)
		}
		if test.expectErr != nil && (strings.Contains(out, "inserted") || strings.Contains(out, "deleted")) {
			t.Errorf("%s\na failed statement reported a count: %q", test.query, out)
		}
	}

	// ExecQuery is ExecQueryCount without the count
	out := captureStdout(t, func() {
		if err := s.ExecQuery(`INSERT INTO people VALUES (8, 'h'), (9, 'i')`); err != nil {
			t.Errorf("unexpected error: %s", err.Error())
		}
	})
	if !strings.Contains(out, "inserted 2 record(s) into people\n\r") {
		t.Errorf("unexpected output %q", out)
	}
	if err := s.ExecQuery(`INSERT INTO nope VALUES (1)`); err != storage.ErrTableNotExist {
		t.Errorf("expected ErrTableNotExist, got %v", err)
	}
	if err := s.ExecQuery(`INSERT people VALUES (1)`); err == nil || !strings.HasPrefix(err.Error(), "unable to parse sql: ") {
		t.Errorf("expected a parse error, got %v", err)
	}
}
