package engine

import (
	"errors"
	"reflect"
	"testing"

	"github.com/mk6i/mkdb/sql"
	"github.com/mk6i/mkdb/storage"
)

func TestLimitCommaParse(t *testing.T) {
	tc := []struct {
		query  string
		expect sql.LimitOffsetClause
	}{
		{
			query: `SELECT * FROM tbl1 LIMIT 5, 10`,
			expect: sql.LimitOffsetClause{
				LimitActive:  true,
				OffsetActive: true,
				Limit:        10,
				Offset:       5,
			},
		},
		{
			query: `select * from tbl1 order by col1 limit 5,10;`,
			expect: sql.LimitOffsetClause{
				LimitActive:  true,
				OffsetActive: true,
				Limit:        10,
				Offset:       5,
			},
		},
		{
			query: `SELECT * FROM tbl1 LIMIT 0, 0`,
			expect: sql.LimitOffsetClause{
				LimitActive:  true,
				OffsetActive: true,
				Limit:        0,
				Offset:       0,
			},
		},
		{
			// same meaning as the standard spelling
			query: `SELECT * FROM tbl1 LIMIT 10 OFFSET 5`,
			expect: sql.LimitOffsetClause{
				LimitActive:  true,
				OffsetActive: true,
				Limit:        10,
				Offset:       5,
			},
		},
		{
			query: `SELECT * FROM tbl1 OFFSET 5 LIMIT 10`,
			expect: sql.LimitOffsetClause{
				LimitActive:  true,
				OffsetActive: true,
				Limit:        10,
				Offset:       5,
			},
		},
		{
			// LIMIT alone does not activate the offset
			query: `SELECT * FROM tbl1 LIMIT 10`,
			expect: sql.LimitOffsetClause{
				LimitActive: true,
				Limit:       10,
			},
		},
		{
			query: `SELECT * FROM tbl1 OFFSET 5`,
			expect: sql.LimitOffsetClause{
				OffsetActive: true,
				Offset:       5,
			},
		},
		{
			query:  `SELECT * FROM tbl1`,
			expect: sql.LimitOffsetClause{},
		},
	}

	for _, test := range tc {
		t.Run(test.query, func(t *testing.T) {
			stmt, err := parseSQL(test.query)
			if err != nil {
				t.Fatalf("unexpected parse error: %v", err)
			}
			sel, ok := stmt.(sql.Select)
			if !ok {
				t.Fatalf("expected a select statement, got %T", stmt)
			}
			if !reflect.DeepEqual(test.expect, sel.LimitOffsetClause) {
				t.Errorf("clause mismatch. expected: %+v actual: %+v", test.expect, sel.LimitOffsetClause)
			}
		})
	}
}

func TestLimitCommaParseErrors(t *testing.T) {
	tc := []struct {
		query     string
		expectErr error
	}{
		// the row count is required after the comma
		{query: `SELECT * FROM tbl1 LIMIT 5,`, expectErr: sql.ErrUnexpectedToken},
		{query: `SELECT * FROM tbl1 LIMIT 5, ;`, expectErr: sql.ErrUnexpectedToken},
		{query: `SELECT * FROM tbl1 LIMIT 5, 'a'`, expectErr: sql.ErrUnexpectedToken},
		{query: `SELECT * FROM tbl1 LIMIT 5, col1`, expectErr: sql.ErrUnexpectedToken},
		{query: `SELECT * FROM tbl1 LIMIT , 5`, expectErr: sql.ErrUnexpectedToken},
		// at most two numbers
		{query: `SELECT * FROM tbl1 LIMIT 1, 2, 3`, expectErr: sql.ErrSyntax},
		// the comma form carries its own offset
		{query: `SELECT * FROM tbl1 LIMIT 1, 2 OFFSET 3`, expectErr: sql.ErrSyntax},
		{query: `SELECT * FROM tbl1 OFFSET 3 LIMIT 1, 2`, expectErr: sql.ErrSyntax},
		// OFFSET has no comma form
		{query: `SELECT * FROM tbl1 OFFSET 1, 2`, expectErr: sql.ErrSyntax},
		// the scanner has no negative integer literals
		{query: `SELECT * FROM tbl1 LIMIT -1, 2`, expectErr: sql.ErrUnexpectedToken},
		{query: `SELECT * FROM tbl1 LIMIT 1, -2`, expectErr: sql.ErrUnexpectedToken},
		// unchanged errors of the standard spelling
		{query: `SELECT * FROM tbl1 LIMIT -1`, expectErr: sql.ErrUnexpectedToken},
		{query: `SELECT * FROM tbl1 LIMIT`, expectErr: sql.ErrUnexpectedToken},
		{query: `SELECT * FROM tbl1 LIMIT 1 LIMIT 2`, expectErr: sql.ErrSyntax},
	}

	for _, test := range tc {
		t.Run(test.query, func(t *testing.T) {
			stmt, err := parseSQL(test.query)
			if !errors.Is(err, test.expectErr) {
				t.Errorf("expected error `%v`, got `%v` (statement %+v)", test.expectErr, err, stmt)
			}
		})
	}
}

// TestLimitCommaNegative feeds the parser negative integer tokens, which the
// scanner does not produce but the parser guards against.
func TestLimitCommaNegative(t *testing.T) {
	prefix := []sql.Token{
		{Type: sql.SELECT},
		{Type: sql.ASTRSK},
		{Type: sql.FROM},
		{Type: sql.IDENT, Text: "tbl1"},
	}

	tc := []struct {
		name      string
		tokens    []sql.Token
		expectErr error
	}{
		{
			name: "LIMIT -1, 2",
			tokens: []sql.Token{
				{Type: sql.LIMIT},
				{Type: sql.INT, Text: "-1"},
				{Type: sql.COMMA, Text: ","},
				{Type: sql.INT, Text: "2"},
			},
			expectErr: sql.ErrNegativeOffset,
		},
		{
			name: "LIMIT 1, -2",
			tokens: []sql.Token{
				{Type: sql.LIMIT},
				{Type: sql.INT, Text: "1"},
				{Type: sql.COMMA, Text: ","},
				{Type: sql.INT, Text: "-2"},
			},
			expectErr: sql.ErrNegativeLimit,
		},
		{
			name: "LIMIT -1, -2",
			tokens: []sql.Token{
				{Type: sql.LIMIT},
				{Type: sql.INT, Text: "-1"},
				{Type: sql.COMMA, Text: ","},
				{Type: sql.INT, Text: "-2"},
			},
			// same precedence as LIMIT -2 OFFSET -1
			expectErr: sql.ErrNegativeLimit,
		},
		{
			name: "LIMIT -2 OFFSET -1",
			tokens: []sql.Token{
				{Type: sql.LIMIT},
				{Type: sql.INT, Text: "-2"},
				{Type: sql.OFFSET},
				{Type: sql.INT, Text: "-1"},
			},
			expectErr: sql.ErrNegativeLimit,
		},
	}

	for _, test := range tc {
		t.Run(test.name, func(t *testing.T) {
			tl := sql.TokenList{}
			for _, tok := range prefix {
				tl.Add(tok)
			}
			for _, tok := range test.tokens {
				tl.Add(tok)
			}
			p := sql.Parser{TokenList: tl}
			_, err := p.Parse()
			if !errors.Is(err, test.expectErr) {
				t.Errorf("expected error `%v`, got `%v`", test.expectErr, err)
			}
		})
	}
}

func TestLimitCommaSelect(t *testing.T) {
	fixture := func(n int) *mockRelationManager {
		return &mockRelationManager{
			fetch: func(tableName string) ([]*storage.Row, []*storage.Field, error) {
				if tableName != "tbl1" {
					return nil, nil, storage.ErrTableNotExist
				}
				var rows []*storage.Row
				for i := 0; i < n; i++ {
					rows = append(rows, &storage.Row{
						RowID: uint32(i),
						Vals:  []interface{}{int64(i)},
					})
				}
				return rows, []*storage.Field{{Column: "col1"}}, nil
			},
		}
	}

	tc := []struct {
		name   string
		query  string
		rows   int
		expect []int64
	}{
		{
			name:   "skip m rows, return n rows",
			query:  `SELECT col1 FROM tbl1 LIMIT 2, 3`,
			rows:   10,
			expect: []int64{2, 3, 4},
		},
		{
			name:   "same result as LIMIT n OFFSET m",
			query:  `SELECT col1 FROM tbl1 LIMIT 3 OFFSET 2`,
			rows:   10,
			expect: []int64{2, 3, 4},
		},
		{
			name:   "applied after ORDER BY",
			query:  `SELECT col1 FROM tbl1 ORDER BY col1 DESC LIMIT 1, 2`,
			rows:   10,
			expect: []int64{8, 7},
		},
		{
			name:   "offset zero",
			query:  `SELECT col1 FROM tbl1 LIMIT 0, 2`,
			rows:   10,
			expect: []int64{0, 1},
		},
		{
			name:   "row count zero",
			query:  `SELECT col1 FROM tbl1 LIMIT 2, 0`,
			rows:   10,
			expect: []int64{},
		},
		{
			name:   "row count larger than what is left",
			query:  `SELECT col1 FROM tbl1 LIMIT 8, 5`,
			rows:   10,
			expect: []int64{8, 9},
		},
		{
			name:   "offset equal to the number of rows",
			query:  `SELECT col1 FROM tbl1 LIMIT 10, 5`,
			rows:   10,
			expect: []int64{},
		},
		{
			name:   "offset larger than the number of rows",
			query:  `SELECT col1 FROM tbl1 LIMIT 11, 5`,
			rows:   10,
			expect: []int64{},
		},
		{
			name:   "empty table",
			query:  `SELECT col1 FROM tbl1 LIMIT 1, 5`,
			rows:   0,
			expect: []int64{},
		},
		{
			name:   "with WHERE",
			query:  `SELECT col1 FROM tbl1 WHERE col1 >= 5 LIMIT 1, 2`,
			rows:   10,
			expect: []int64{6, 7},
		},
	}

	for _, test := range tc {
		t.Run(test.name, func(t *testing.T) {
			stmt, err := parseSQL(test.query)
			if err != nil {
				t.Fatalf("unexpected parse error: %v", err)
			}
			rows, _, err := EvaluateSelect(stmt.(sql.Select), fixture(test.rows))
			if err != nil {
				t.Fatalf("unexpected error: %v", err)
			}
			actual := []int64{}
			for _, row := range rows {
				actual = append(actual, row.Vals[0].(int64))
			}
			if !reflect.DeepEqual(test.expect, actual) {
				t.Errorf("rows do not match. expected: %v actual: %v", test.expect, actual)
			}
		})
	}
}

func TestLimitCommaSession(t *testing.T) {
	defer storage.ClearDataDir()

	s := Session{}
	defer s.Close()

	queries := []string{
		`CREATE DATABASE limitcommadb`,
		`USE limitcommadb`,
		`CREATE TABLE nums (n int)`,
		`SELECT n FROM nums LIMIT 1, 2`,
		`INSERT INTO nums VALUES (1), (2), (3), (4), (5)`,
		`SELECT n FROM nums ORDER BY n DESC LIMIT 1, 2`,
		`SELECT n FROM nums LIMIT 7, 2`,
	}
	for _, q := range queries {
		if err := s.ExecQuery(q); err != nil {
			t.Fatalf("query `%s` failed: %v", q, err)
		}
	}

	if err := s.ExecQuery(`SELECT n FROM nums LIMIT 1,`); err == nil {
		t.Errorf("expected a parse error for a missing row count")
	}
}
