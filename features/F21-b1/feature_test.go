package engine

import (
	"errors"
	"reflect"
	"testing"

	"github.com/mk6i/mkdb/sql"
	"github.com/mk6i/mkdb/storage"
)

// isNullFixture returns a fresh copy of a table that has NULLs in both an
// integer and a string column.
func isNullFixture() *mockRelationManager {
	return &mockRelationManager{
		fetch: func(tableName string) ([]*storage.Row, []*storage.Field, error) {
			if tableName != "tbl1" {
				return nil, nil, storage.ErrTableNotExist
			}
			fields := []*storage.Field{
				{Column: "id"},
				{Column: "name"},
				{Column: "age"},
			}
			rows := []*storage.Row{
				{RowID: 1, Vals: []interface{}{int64(1), "a", int64(10)}},
				{RowID: 2, Vals: []interface{}{int64(2), nil, int64(20)}},
				{RowID: 3, Vals: []interface{}{int64(3), "c", nil}},
				{RowID: 4, Vals: []interface{}{int64(4), nil, nil}},
				// zero values are not NULL
				{RowID: 5, Vals: []interface{}{int64(5), "", int64(0)}},
			}
			return rows, fields, nil
		},
	}
}

func TestParseIsNull(t *testing.T) {
	col := func(name string) sql.ColumnReference {
		return sql.ColumnReference{ColumnName: name}
	}
	pred := func(lhs interface{}, op sql.TokenType, rhs interface{}) sql.Predicate {
		return sql.Predicate{
			ComparisonPredicate: sql.ComparisonPredicate{LHS: lhs, CompOp: op, RHS: rhs},
		}
	}

	tc := []struct {
		name   string
		query  string
		expect interface{}
	}{
		{
			name:   "IS NULL",
			query:  `SELECT * FROM tbl1 WHERE name IS NULL`,
			expect: pred(col("name"), sql.IS_NULL, nil),
		},
		{
			name:   "IS NOT NULL",
			query:  `SELECT * FROM tbl1 WHERE name IS NOT NULL;`,
			expect: pred(col("name"), sql.IS_NOT_NULL, nil),
		},
		{
			name:   "keywords are case insensitive",
			query:  `select * from tbl1 where name is not null`,
			expect: pred(col("name"), sql.IS_NOT_NULL, nil),
		},
		{
			name:  "qualified column",
			query: `SELECT * FROM tbl1 t WHERE t.name IS NULL`,
			expect: pred(sql.ColumnReference{Qualifier: "t", ColumnName: "name"},
				sql.IS_NULL, nil),
		},
		{
			name:  "AND chain",
			query: `SELECT * FROM tbl1 WHERE name IS NULL AND age IS NOT NULL AND id > 1`,
			expect: sql.BooleanTerm{
				LHS: pred(col("name"), sql.IS_NULL, nil),
				RHS: sql.BooleanTerm{
					LHS: pred(col("age"), sql.IS_NOT_NULL, nil),
					RHS: pred(col("id"), sql.GT, int64(1)),
				},
			},
		},
		{
			name:  "OR chain",
			query: `SELECT * FROM tbl1 WHERE id = 1 OR name IS NULL`,
			expect: sql.SearchCondition{
				LHS: pred(col("id"), sql.EQ, int64(1)),
				RHS: pred(col("name"), sql.IS_NULL, nil),
			},
		},
		{
			name:   "a column called is",
			query:  `SELECT * FROM tbl1 WHERE is IS NULL`,
			expect: pred(col("is"), sql.IS_NULL, nil),
		},
	}

	for _, test := range tc {
		t.Run(test.name, func(t *testing.T) {
			stmt, err := parseSQL(test.query)
			if err != nil {
				t.Fatalf("unexpected error: %v", err)
			}
			sel, ok := stmt.(sql.Select)
			if !ok {
				t.Fatalf("expected a select, got %T", stmt)
			}
			where, ok := sel.TableExpression.WhereClause.(sql.WhereClause)
			if !ok {
				t.Fatalf("expected a where clause, got %T", sel.TableExpression.WhereClause)
			}
			if !reflect.DeepEqual(test.expect, where.SearchCondition) {
				t.Errorf("expected %+v, got %+v", test.expect, where.SearchCondition)
			}
		})
	}
}

func TestParseIsNullErrors(t *testing.T) {
	tc := []struct {
		query     string
		expectErr error
	}{
		{`SELECT * FROM tbl1 WHERE name IS`, sql.ErrSyntax},
		{`SELECT * FROM tbl1 WHERE name IS NOT`, sql.ErrUnexpectedToken},
		{`SELECT * FROM tbl1 WHERE name IS NOT 5`, sql.ErrUnexpectedToken},
		{`SELECT * FROM tbl1 WHERE name IS NOT NOT NULL`, sql.ErrUnexpectedToken},
		{`SELECT * FROM tbl1 WHERE name IS 5`, sql.ErrSyntax},
		{`SELECT * FROM tbl1 WHERE name IS NULL NULL`, sql.ErrSyntax},
		{`SELECT * FROM tbl1 WHERE IS NULL`, sql.ErrSyntax},
		{`SELECT * FROM tbl1 WHERE name = NULL`, sql.ErrUnexpectedToken},
	}

	for _, test := range tc {
		t.Run(test.query, func(t *testing.T) {
			_, err := parseSQL(test.query)
			if !errors.Is(err, test.expectErr) {
				t.Errorf("expected %v, got %v", test.expectErr, err)
			}
		})
	}
}

// IS is not a reserved word. The places where an identifier called "is" was
// accepted before keep accepting it.
func TestParseIsRemainsAnIdentifier(t *testing.T) {
	t.Run("alias", func(t *testing.T) {
		stmt, err := parseSQL(`SELECT name is, age FROM tbl1`)
		if err != nil {
			t.Fatalf("unexpected error: %v", err)
		}
		expect := sql.SelectList{
			{ValueExpressionPrimary: sql.ColumnReference{ColumnName: "name"}, AsClause: "is"},
			{ValueExpressionPrimary: sql.ColumnReference{ColumnName: "age"}},
		}
		if actual := stmt.(sql.Select).SelectList; !reflect.DeepEqual(expect, actual) {
			t.Errorf("expected %+v, got %+v", expect, actual)
		}
	})
	t.Run("last alias", func(t *testing.T) {
		stmt, err := parseSQL(`SELECT name is FROM tbl1`)
		if err != nil {
			t.Fatalf("unexpected error: %v", err)
		}
		expect := sql.SelectList{
			{ValueExpressionPrimary: sql.ColumnReference{ColumnName: "name"}, AsClause: "is"},
		}
		if actual := stmt.(sql.Select).SelectList; !reflect.DeepEqual(expect, actual) {
			t.Errorf("expected %+v, got %+v", expect, actual)
		}
	})
	t.Run("alias without from", func(t *testing.T) {
		stmt, err := parseSQL(`SELECT 1 is`)
		if err != nil {
			t.Fatalf("unexpected error: %v", err)
		}
		expect := sql.SelectList{
			{ValueExpressionPrimary: int64(1), AsClause: "is"},
		}
		if actual := stmt.(sql.Select).SelectList; !reflect.DeepEqual(expect, actual) {
			t.Errorf("expected %+v, got %+v", expect, actual)
		}
	})
	t.Run("column and table", func(t *testing.T) {
		stmt, err := parseSQL(`SELECT is FROM is WHERE is = 1`)
		if err != nil {
			t.Fatalf("unexpected error: %v", err)
		}
		sel := stmt.(sql.Select)
		expectWhere := sql.WhereClause{
			SearchCondition: sql.Predicate{
				ComparisonPredicate: sql.ComparisonPredicate{
					LHS:    sql.ColumnReference{ColumnName: "is"},
					CompOp: sql.EQ,
					RHS:    int64(1),
				},
			},
		}
		if !reflect.DeepEqual(sql.TableName{Name: "is"}, sel.FromClause[0]) {
			t.Errorf("unexpected from clause %+v", sel.FromClause)
		}
		if !reflect.DeepEqual(expectWhere, sel.TableExpression.WhereClause) {
			t.Errorf("expected %+v, got %+v", expectWhere, sel.TableExpression.WhereClause)
		}
	})
}

func TestSelectIsNull(t *testing.T) {
	tc := []struct {
		name      string
		query     string
		expectIDs []int64
	}{
		{
			name:      "string column IS NULL",
			query:     `SELECT id FROM tbl1 WHERE name IS NULL`,
			expectIDs: []int64{2, 4},
		},
		{
			name:      "string column IS NOT NULL, empty string is a value",
			query:     `SELECT id FROM tbl1 WHERE name IS NOT NULL`,
			expectIDs: []int64{1, 3, 5},
		},
		{
			name:      "int column IS NULL",
			query:     `SELECT id FROM tbl1 WHERE age IS NULL`,
			expectIDs: []int64{3, 4},
		},
		{
			name:      "int column IS NOT NULL, zero is a value",
			query:     `SELECT id FROM tbl1 WHERE age IS NOT NULL`,
			expectIDs: []int64{1, 2, 5},
		},
		{
			name:      "no row matches",
			query:     `SELECT id FROM tbl1 WHERE id IS NULL`,
			expectIDs: nil,
		},
		{
			name:      "every row matches",
			query:     `SELECT id FROM tbl1 WHERE id IS NOT NULL`,
			expectIDs: []int64{1, 2, 3, 4, 5},
		},
		{
			name:      "AND",
			query:     `SELECT id FROM tbl1 WHERE name IS NULL AND age IS NULL`,
			expectIDs: []int64{4},
		},
		{
			name:      "AND with a comparison",
			query:     `SELECT id FROM tbl1 WHERE age IS NOT NULL AND id >= 2`,
			expectIDs: []int64{2, 5},
		},
		{
			name:      "OR",
			query:     `SELECT id FROM tbl1 WHERE name IS NULL OR age IS NULL`,
			expectIDs: []int64{2, 3, 4},
		},
		{
			name:      "qualified by the correlation name",
			query:     `SELECT id FROM tbl1 t WHERE t.name IS NULL`,
			expectIDs: []int64{2, 4},
		},
		{
			name:      "SELECT *",
			query:     `SELECT * FROM tbl1 WHERE age IS NULL AND name IS NOT NULL`,
			expectIDs: []int64{3},
		},
		{
			name:      "a literal is never NULL",
			query:     `SELECT id FROM tbl1 WHERE 1 IS NULL`,
			expectIDs: nil,
		},
		{
			name:      "with ORDER BY and LIMIT",
			query:     `SELECT id FROM tbl1 WHERE name IS NOT NULL ORDER BY id DESC LIMIT 2`,
			expectIDs: []int64{5, 3},
		},
	}

	for _, test := range tc {
		t.Run(test.name, func(t *testing.T) {
			stmt, err := parseSQL(test.query)
			if err != nil {
				t.Fatalf("unexpected parse error: %v", err)
			}
			rows, _, err := EvaluateSelect(stmt.(sql.Select), isNullFixture())
			if err != nil {
				t.Fatalf("unexpected error: %v", err)
			}
			var ids []int64
			for _, row := range rows {
				ids = append(ids, row.Vals[0].(int64))
			}
			if !reflect.DeepEqual(test.expectIDs, ids) {
				t.Errorf("expected ids %v, got %v", test.expectIDs, ids)
			}
		})
	}
}

func TestSelectIsNullEmptyTable(t *testing.T) {
	rm := &mockRelationManager{
		fetch: func(tableName string) ([]*storage.Row, []*storage.Field, error) {
			return nil, []*storage.Field{{Column: "id"}, {Column: "name"}}, nil
		},
	}
	for _, q := range []string{
		`SELECT id FROM tbl1 WHERE name IS NULL`,
		`SELECT id FROM tbl1 WHERE name IS NOT NULL`,
	} {
		stmt, err := parseSQL(q)
		if err != nil {
			t.Fatalf("unexpected parse error: %v", err)
		}
		rows, fields, err := EvaluateSelect(stmt.(sql.Select), rm)
		if err != nil {
			t.Fatalf("%s: unexpected error: %v", q, err)
		}
		if len(rows) != 0 {
			t.Errorf("%s: expected no rows, got %v", q, rows)
		}
		if len(fields) != 1 || fields[0].Column != "id" {
			t.Errorf("%s: unexpected header %v", q, fields)
		}
	}
}

func TestSelectIsNullUnknownColumn(t *testing.T) {
	stmt, err := parseSQL(`SELECT id FROM tbl1 WHERE nope IS NULL`)
	if err != nil {
		t.Fatalf("unexpected parse error: %v", err)
	}
	_, _, err = EvaluateSelect(stmt.(sql.Select), isNullFixture())
	if !errors.Is(err, storage.ErrFieldNotFound) {
		t.Errorf("expected %v, got %v", storage.ErrFieldNotFound, err)
	}
}

// the rows that an outer join pads are found with IS NULL
func TestSelectIsNullLeftJoin(t *testing.T) {
	rm := &mockRelationManager{
		fetch: func(tableName string) ([]*storage.Row, []*storage.Field, error) {
			switch tableName {
			case "parent":
				return []*storage.Row{
					{Vals: []interface{}{int64(1)}},
					{Vals: []interface{}{int64(2)}},
					{Vals: []interface{}{int64(3)}},
				}, []*storage.Field{{Column: "id"}}, nil
			case "child":
				return []*storage.Row{
					{Vals: []interface{}{int64(1), "x"}},
					{Vals: []interface{}{int64(3), "y"}},
				}, []*storage.Field{{Column: "parent_id"}, {Column: "val"}}, nil
			}
			return nil, nil, storage.ErrTableNotExist
		},
	}

	stmt, err := parseSQL(`SELECT p.id FROM parent p LEFT JOIN child c ON p.id = c.parent_id WHERE c.parent_id IS NULL`)
	if err != nil {
		t.Fatalf("unexpected parse error: %v", err)
	}
	rows, _, err := EvaluateSelect(stmt.(sql.Select), rm)
	if err != nil {
		t.Fatalf("unexpected error: %v", err)
	}
	expect := []*storage.Row{{Vals: []interface{}{int64(2)}}}
	if !reflect.DeepEqual(expect, rows) {
		t.Errorf("expected %v, got %v", expect, rows)
	}
}

// the comparison operators are evaluated exactly as before
func TestSelectIsNullLeavesComparisonsAlone(t *testing.T) {
	tc := []struct {
		query     string
		expectIDs []int64
	}{
		{`SELECT id FROM tbl1 WHERE name = 'a'`, []int64{1}},
		{`SELECT id FROM tbl1 WHERE name != 'a'`, []int64{2, 3, 4, 5}},
		{`SELECT id FROM tbl1 WHERE id > 3`, []int64{4, 5}},
		{`SELECT id FROM tbl1 WHERE id <= 1`, []int64{1}},
	}
	for _, test := range tc {
		stmt, err := parseSQL(test.query)
		if err != nil {
			t.Fatalf("unexpected parse error: %v", err)
		}
		rows, _, err := EvaluateSelect(stmt.(sql.Select), isNullFixture())
		if err != nil {
			t.Fatalf("%s: unexpected error: %v", test.query, err)
		}
		var ids []int64
		for _, row := range rows {
			ids = append(ids, row.Vals[0].(int64))
		}
		if !reflect.DeepEqual(test.expectIDs, ids) {
			t.Errorf("%s: expected ids %v, got %v", test.query, test.expectIDs, ids)
		}
	}
}

// NULLs that were written to and read back from the storage layer
func TestIsNullIntegration(t *testing.T) {
	defer storage.ClearDataDir()

	s := Session{}
	defer s.Close()

	setup := []string{
		`CREATE DATABASE isnulldb`,
		`USE isnulldb`,
		`CREATE TABLE people (
			person_id int,
			first_name varchar(255),
			last_name varchar(255),
			visits bigint
		)`,
		`INSERT INTO people (person_id, first_name) VALUES (1, 'John')`,
		`INSERT INTO people VALUES (2, 'Ikra', 'Freeman', 7)`,
		`INSERT INTO people (person_id, last_name, visits) VALUES (3, 'Torres', 0)`,
		`INSERT INTO people (person_id) VALUES (4)`,
	}
	for _, q := range setup {
		if err := s.ExecQuery(q); err != nil {
			t.Fatalf("error running query:\n %s\nError: %s", q, err.Error())
		}
	}

	selectIDs := func(q string) []int64 {
		t.Helper()
		stmt, err := parseSQL(q)
		if err != nil {
			t.Fatalf("%s: unexpected parse error: %v", q, err)
		}
		rows, _, err := EvaluateSelect(stmt.(sql.Select), s.RelationService)
		if err != nil {
			t.Fatalf("%s: unexpected error: %v", q, err)
		}
		var ids []int64
		for _, row := range rows {
			ids = append(ids, row.Vals[0].(int64))
		}
		return ids
	}
	expectIDs := func(q string, expect []int64) {
		t.Helper()
		if actual := selectIDs(q); !reflect.DeepEqual(expect, actual) {
			t.Errorf("%s: expected ids %v, got %v", q, expect, actual)
		}
	}

	expectIDs(`SELECT person_id FROM people WHERE last_name IS NULL ORDER BY person_id`, []int64{1, 4})
	expectIDs(`SELECT person_id FROM people WHERE last_name IS NOT NULL ORDER BY person_id`, []int64{2, 3})
	expectIDs(`SELECT person_id FROM people WHERE visits IS NULL ORDER BY person_id`, []int64{1, 4})
	expectIDs(`SELECT person_id FROM people WHERE visits IS NOT NULL ORDER BY person_id`, []int64{2, 3})
	expectIDs(`SELECT person_id FROM people WHERE first_name IS NULL AND last_name IS NULL`, []int64{4})
	expectIDs(`SELECT person_id FROM people WHERE person_id IS NULL`, nil)

	// the same predicate filters the rows of UPDATE and DELETE
	if err := s.ExecQuery(`UPDATE people SET last_name = 'Unknown' WHERE last_name IS NULL`); err != nil {
		t.Fatalf("unexpected error: %v", err)
	}
	expectIDs(`SELECT person_id FROM people WHERE last_name IS NULL`, nil)
	expectIDs(`SELECT person_id FROM people WHERE last_name = 'Unknown' ORDER BY person_id`, []int64{1, 4})

	if err := s.ExecQuery(`DELETE FROM people WHERE visits IS NULL`); err != nil {
		t.Fatalf("unexpected error: %v", err)
	}
	expectIDs(`SELECT person_id FROM people ORDER BY person_id`, []int64{2, 3})
}
