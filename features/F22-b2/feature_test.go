package engine

import (
	"errors"
	"reflect"
	"testing"

	"github.com/mk6i/mkdb/sql"
	"github.com/mk6i/mkdb/storage"
)

func aggrAliasTestRun(t *testing.T, q string, rows [][]interface{}) ([][]interface{}, []string, error) {
	t.Helper()
	stmt, err := parseSQL(q)
	if err != nil {
		return nil, nil, err
	}
	sel, ok := stmt.(sql.Select)
	if !ok {
		t.Fatalf("%s: expected a select statement, got %#v", q, stmt)
	}
	actualRows, actualFields, err := EvaluateSelect(sel, &mockRelationManager{
		fetch: func(tableName string) ([]*storage.Row, []*storage.Field, error) {
			// every evaluation gets its own copy: projection rewrites rows
			// and header fields in place
			var given []*storage.Row
			for i, vals := range rows {
				given = append(given, &storage.Row{RowID: uint32(i + 1), Vals: append([]interface{}{}, vals...)})
			}
			return given, []*storage.Field{{Column: "city"}, {Column: "temp"}}, nil
		},
	})
	if err != nil {
		return nil, nil, err
	}
	var vals [][]interface{}
	for _, row := range actualRows {
		vals = append(vals, row.Vals)
	}
	var header []string
	for _, field := range actualFields {
		header = append(header, field.Column.(string))
	}
	return vals, header, nil
}

var aggrAliasTestRows = [][]interface{}{
	{"nyc", int64(71)},
	{"sf", int64(72)},
	{"austin", int64(90)},
	{"nyc", int64(84)},
	{nil, int64(10)},
	{"sf", nil},
	{"nyc", int64(64)},
	{"austin", int64(80)},
	{"sf", int64(54)},
}

func TestAggregateAliasOrderBy(t *testing.T) {
	tc := []struct {
		q            string
		rows         [][]interface{}
		expectHeader []string
		expectRows   [][]interface{}
	}{
		{
			q:            `SELECT count(*) AS n FROM weather`,
			rows:         aggrAliasTestRows,
			expectHeader: []string{"n"},
			expectRows:   [][]interface{}{{int64(9)}},
		},
		{
			q:            `SELECT count(*) AS n FROM weather ORDER BY n`,
			rows:         aggrAliasTestRows,
			expectHeader: []string{"n"},
			expectRows:   [][]interface{}{{int64(9)}},
		},
		{
			// a table without rows has one group
			q:            `SELECT count(*) AS n FROM weather ORDER BY n DESC`,
			expectHeader: []string{"n"},
			expectRows:   [][]interface{}{{int64(0)}},
		},
		{
			// grouping an empty table gives no groups
			q:            `SELECT city, count(*) AS n FROM weather GROUP BY city ORDER BY n`,
			expectHeader: []string{"city", "n"},
		},
		{
			// the NULL city is a group of its own
			q:            `SELECT city, count(*) AS n FROM weather GROUP BY city ORDER BY n DESC, city`,
			rows:         aggrAliasTestRows,
			expectHeader: []string{"city", "n"},
			expectRows: [][]interface{}{
				{"nyc", int64(3)},
				{"sf", int64(3)},
				{"austin", int64(2)},
				{nil, int64(1)},
			},
		},
		{
			// AS is optional, like for plain columns; count(col) skips NULLs
			q:            `SELECT city, count(temp) n FROM weather GROUP BY city ORDER BY n ASC, city DESC`,
			rows:         aggrAliasTestRows,
			expectHeader: []string{"city", "n"},
			expectRows: [][]interface{}{
				{nil, int64(1)},
				{"sf", int64(2)},
				{"austin", int64(2)},
				{"nyc", int64(3)},
			},
		},
		{
			q:            `SELECT city AS c, avg(temp) AS mean, count(*) AS n FROM weather WHERE city != 'sf' GROUP BY c ORDER BY mean DESC`,
			rows:         aggrAliasTestRows,
			expectHeader: []string{"c", "mean", "n"},
			expectRows: [][]interface{}{
				{"austin", int64(85), int64(2)},
				{"nyc", int64(73), int64(3)},
				{nil, int64(10), int64(1)},
			},
		},
		{
			// the alias is the name of the result column: the table column of
			// the same name is not in the result
			q:            `SELECT city, count(temp) AS temp FROM weather GROUP BY city ORDER BY temp DESC, city LIMIT 2`,
			rows:         aggrAliasTestRows,
			expectHeader: []string{"city", "temp"},
			expectRows: [][]interface{}{
				{"nyc", int64(3)},
				{"austin", int64(2)},
			},
		},
		{
			// unaliased aggregates keep their generated name
			q:            `SELECT city, count(*), count(*) AS n FROM weather GROUP BY city ORDER BY n LIMIT 1`,
			rows:         aggrAliasTestRows,
			expectHeader: []string{"city", "count(*)", "n"},
			expectRows: [][]interface{}{
				{nil, int64(1), int64(1)},
			},
		},
	}

	for _, test := range tc {
		t.Run(test.q, func(t *testing.T) {
			actualRows, actualHeader, err := aggrAliasTestRun(t, test.q, test.rows)
			if err != nil {
				t.Fatalf("unexpected error: %s", err.Error())
			}
			if !reflect.DeepEqual(test.expectHeader, actualHeader) {
				t.Errorf("header does not match. expected: %v actual: %v", test.expectHeader, actualHeader)
			}
			if !reflect.DeepEqual(test.expectRows, actualRows) {
				t.Errorf("rows do not match. expected: %v actual: %v", test.expectRows, actualRows)
			}
		})
	}
}

func TestAggregateAliasErrors(t *testing.T) {
	parseErrs := []string{
		// AS must be followed by a name
		`SELECT count(*) AS FROM weather`,
		`SELECT count(*) AS 1 FROM weather`,
		`SELECT count(*) AS 'n' FROM weather`,
		`SELECT avg(temp) AS, city FROM weather GROUP BY city`,
		// reserved words are not names
		`SELECT count(*) AS count FROM weather`,
	}
	for _, q := range parseErrs {
		if _, err := parseSQL(q); err == nil {
			t.Errorf("%s: expected a parse error", q)
		}
	}

	evalErrs := []struct {
		q         string
		expectErr error
	}{
		// the generated name is replaced by the alias
		{`SELECT city, count(*) AS n FROM weather GROUP BY city ORDER BY m`, ErrSortFieldNotFound},
		// an aggregate does not belong to a table
		{`SELECT city, count(*) AS n FROM weather GROUP BY city ORDER BY weather.n`, ErrSortFieldNotFound},
		// two result columns of the same name
		{`SELECT city, count(*) AS city FROM weather GROUP BY city ORDER BY city`, storage.ErrFieldAmbiguous},
		{`SELECT count(*) AS n, avg(temp) AS n FROM weather WHERE city != 'sf' ORDER BY n`, storage.ErrFieldAmbiguous},
	}
	for _, test := range evalErrs {
		_, _, err := aggrAliasTestRun(t, test.q, aggrAliasTestRows)
		if !errors.Is(err, test.expectErr) {
			t.Errorf("%s: expected error `%v`, got `%v`", test.q, test.expectErr, err)
		}
	}
}

func TestAggregateAliasSession(t *testing.T) {
	defer storage.ClearDataDir()

	s := Session{}
	for _, q := range []string{
		`CREATE DATABASE testaggralias`,
		`USE testaggralias`,
		`CREATE TABLE weather (city varchar(255), temp int)`,
	} {
		if err := s.ExecQuery(q); err != nil {
			t.Fatalf("error running query:\n %s\nError: %s", q, err.Error())
		}
	}
	defer s.Close()

	run := func(q string) [][]interface{} {
		stmt, err := parseSQL(q)
		if err != nil {
			t.Fatalf("error parsing query:\n %s\nError: %s", q, err.Error())
		}
		rows, fields, err := EvaluateSelect(stmt.(sql.Select), s.RelationService)
		if err != nil {
			t.Fatalf("error running query:\n %s\nError: %s", q, err.Error())
		}
		if last := fields[len(fields)-1]; last.Column != "n" {
			t.Errorf("%s: expected the last result column to be named n, got %v", q, last.Column)
		}
		var vals [][]interface{}
		for _, row := range rows {
			vals = append(vals, row.Vals)
		}
		return vals
	}

	// empty table
	if rows := run(`SELECT count(*) AS n FROM weather ORDER BY n`); !reflect.DeepEqual([][]interface{}{{int64(0)}}, rows) {
		t.Errorf("unexpected rows for empty table: %v", rows)
	}
	if rows := run(`SELECT city, count(*) AS n FROM weather GROUP BY city ORDER BY n`); len(rows) != 0 {
		t.Errorf("unexpected groups for empty table: %v", rows)
	}

	for _, q := range []string{
		`INSERT INTO weather VALUES ('nyc', 71), ('sf', 72), ('austin', 90), ('nyc', 84), ('nyc', 64), ('austin', 80)`,
		`INSERT INTO weather (temp) VALUES (10)`,
		`INSERT INTO weather (city) VALUES ('sf')`,
	} {
		if err := s.ExecQuery(q); err != nil {
			t.Fatalf("error running query:\n %s\nError: %s", q, err.Error())
		}
	}

	exp := [][]interface{}{{"nyc", int64(3)}, {"austin", int64(2)}, {"sf", int64(2)}, {nil, int64(1)}}
	if rows := run(`SELECT city, count(*) AS n FROM weather GROUP BY city ORDER BY n DESC, city`); !reflect.DeepEqual(exp, rows) {
		t.Errorf("rows do not match. expected: %v actual: %v", exp, rows)
	}
	exp = [][]interface{}{{nil, int64(1)}, {"sf", int64(1)}}
	if rows := run(`SELECT city, count(temp) AS n FROM weather GROUP BY city ORDER BY n, city LIMIT 2`); !reflect.DeepEqual(exp, rows) {
		t.Errorf("rows do not match. expected: %v actual: %v", exp, rows)
	}
	// the statement also runs through the session
	if err := s.ExecQuery(`SELECT city, count(*) AS n FROM weather GROUP BY city ORDER BY n DESC;`); err != nil {
		t.Errorf("unexpected error: %s", err.Error())
	}
}
