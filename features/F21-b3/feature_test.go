package engine

import (
	"errors"
	"reflect"
	"testing"

	"github.com/mk6i/mkdb/sql"
	"github.com/mk6i/mkdb/storage"
)

// minMaxFixture returns fresh copies of the test tables on every fetch, the
// evaluation rearranges rows in place.
func minMaxFixture() *mockRelationManager {
	return &mockRelationManager{
		fetch: func(tableName string) ([]*storage.Row, []*storage.Field, error) {
			switch tableName {
			case "tbl1":
				fields := []*storage.Field{
					{Column: "grp"},
					{Column: "num"},
					{Column: "str"},
					{Column: "flag"},
				}
				rows := []*storage.Row{
					{Vals: []interface{}{"x", int64(5), "pear", true}},
					{Vals: []interface{}{"y", nil, nil, false}},
					{Vals: []interface{}{"x", int64(-3), "apple", true}},
					{Vals: []interface{}{"z", nil, nil, nil}},
					{Vals: []interface{}{"y", int64(7), "fig", nil}},
					{Vals: []interface{}{"x", nil, "zebra", false}},
					{Vals: []interface{}{"y", int64(7), "", true}},
					{Vals: []interface{}{nil, int64(100), "kiwi", true}},
				}
				return rows, fields, nil
			case "allnull":
				fields := []*storage.Field{{Column: "grp"}, {Column: "num"}, {Column: "str"}}
				rows := []*storage.Row{
					{Vals: []interface{}{"x", nil, nil}},
					{Vals: []interface{}{"x", nil, nil}},
					{Vals: []interface{}{"y", nil, nil}},
				}
				return rows, fields, nil
			case "single":
				fields := []*storage.Field{{Column: "grp"}, {Column: "num"}, {Column: "str"}}
				rows := []*storage.Row{
					{Vals: []interface{}{"x", int64(0), ""}},
				}
				return rows, fields, nil
			case "empty":
				fields := []*storage.Field{{Column: "grp"}, {Column: "num"}, {Column: "str"}}
				return nil, fields, nil
			}
			return nil, nil, storage.ErrTableNotExist
		},
	}
}

func runMinMax(t *testing.T, query string) ([]*storage.Row, []*storage.Field, error) {
	t.Helper()
	stmt, err := parseSQL(query)
	if err != nil {
		t.Fatalf("%s: unexpected parse error: %v", query, err)
	}
	return EvaluateSelect(stmt.(sql.Select), minMaxFixture())
}

func minMaxVals(rows []*storage.Row) [][]interface{} {
	var ret [][]interface{}
	for _, row := range rows {
		ret = append(ret, row.Vals)
	}
	return ret
}

func TestParseMinMax(t *testing.T) {
	tc := []struct {
		query  string
		expect sql.SelectList
	}{
		{
			query: `SELECT min(num), max(num) FROM tbl1`,
			expect: sql.SelectList{
				{ValueExpressionPrimary: sql.Min{ValueExpression: sql.ColumnReference{ColumnName: "num"}}},
				{ValueExpressionPrimary: sql.Max{ValueExpression: sql.ColumnReference{ColumnName: "num"}}},
			},
		},
		{
			query: `select MIN(t.num) AS lo, Max(t.str) hi from tbl1 t`,
			expect: sql.SelectList{
				{
					ValueExpressionPrimary: sql.Min{ValueExpression: sql.ColumnReference{Qualifier: "t", ColumnName: "num"}},
					AsClause:               "lo",
				},
				{
					ValueExpressionPrimary: sql.Max{ValueExpression: sql.ColumnReference{Qualifier: "t", ColumnName: "str"}},
					AsClause:               "hi",
				},
			},
		},
		{
			query: `SELECT grp, max(num), count(*), avg(num) FROM tbl1 GROUP BY grp`,
			expect: sql.SelectList{
				{ValueExpressionPrimary: sql.ColumnReference{ColumnName: "grp"}},
				{ValueExpressionPrimary: sql.Max{ValueExpression: sql.ColumnReference{ColumnName: "num"}}},
				{ValueExpressionPrimary: sql.Count{}},
				{ValueExpressionPrimary: sql.Average{ValueExpression: sql.ColumnReference{ColumnName: "num"}}},
			},
		},
	}

	for _, test := range tc {
		t.Run(test.query, func(t *testing.T) {
			stmt, err := parseSQL(test.query)
			if err != nil {
				t.Fatalf("unexpected error: %v", err)
			}
			sel := stmt.(sql.Select)
			if !reflect.DeepEqual(test.expect, sel.SelectList) {
				t.Errorf("expected %+v, got %+v", test.expect, sel.SelectList)
			}
			if !sel.SelectList.HasAggrFunc() {
				t.Errorf("expected the select list to count as aggregating")
			}
		})
	}
}

func TestParseMinMaxErrors(t *testing.T) {
	tc := []struct {
		query     string
		expectErr error // nil: any error
	}{
		{`SELECT min() FROM tbl1`, nil},
		{`SELECT max(*) FROM tbl1`, nil},
		{`SELECT min(1) FROM tbl1`, nil},
		{`SELECT max('a') FROM tbl1`, nil},
		{`SELECT min FROM tbl1`, sql.ErrUnexpectedToken},
		{`SELECT max(num FROM tbl1`, sql.ErrUnexpectedToken},
		{`SELECT min(num, str) FROM tbl1`, sql.ErrUnexpectedToken},
		{`SELECT min(t.) FROM tbl1 t`, sql.ErrUnexpectedToken},
		// a plain column next to an aggregate has to be grouped
		{`SELECT grp, min(num) FROM tbl1`, sql.ErrInvalidGroupByColumn},
		{`SELECT grp, str, max(num) FROM tbl1 GROUP BY grp`, sql.ErrInvalidGroupByColumn},
	}

	for _, test := range tc {
		t.Run(test.query, func(t *testing.T) {
			_, err := parseSQL(test.query)
			if err == nil {
				t.Fatalf("expected an error")
			}
			if test.expectErr != nil && !errors.Is(err, test.expectErr) {
				t.Errorf("expected %v, got %v", test.expectErr, err)
			}
		})
	}
}

func TestSelectMinMax(t *testing.T) {
	tc := []struct {
		name         string
		query        string
		expectFields []*storage.Field
		expect       [][]interface{}
	}{
		{
			name:         "integer column, NULLs ignored",
			query:        `SELECT min(num), max(num) FROM tbl1`,
			expectFields: []*storage.Field{{Column: "min(num)"}, {Column: "max(num)"}},
			expect:       [][]interface{}{{int64(-3), int64(100)}},
		},
		{
			name:         "string column, the empty string is a value",
			query:        `SELECT min(str), max(str) FROM tbl1`,
			expectFields: []*storage.Field{{Column: "min(str)"}, {Column: "max(str)"}},
			expect:       [][]interface{}{{"", "zebra"}},
		},
		{
			name:         "max before min, mixed columns, aliases",
			query:        `SELECT max(str) AS hi, min(num) lo FROM tbl1`,
			expectFields: []*storage.Field{{Column: "hi"}, {Column: "lo"}},
			expect:       [][]interface{}{{"zebra", int64(-3)}},
		},
		{
			name:         "qualified column",
			query:        `SELECT min(t.num) FROM tbl1 t`,
			expectFields: []*storage.Field{{Column: "min(t.num)"}},
			expect:       [][]interface{}{{int64(-3)}},
		},
		{
			name:         "WHERE is applied first",
			query:        `SELECT min(num), max(num), min(str) FROM tbl1 WHERE grp = 'y'`,
			expectFields: []*storage.Field{{Column: "min(num)"}, {Column: "max(num)"}, {Column: "min(str)"}},
			expect:       [][]interface{}{{int64(7), int64(7), ""}},
		},
		{
			name:         "the first row holds NULL",
			query:        `SELECT min(num), max(num) FROM tbl1 WHERE grp != 'x'`,
			expectFields: []*storage.Field{{Column: "min(num)"}, {Column: "max(num)"}},
			expect:       [][]interface{}{{int64(7), int64(100)}},
		},
		{
			name:         "all values NULL",
			query:        `SELECT min(num), max(num), min(str), max(str) FROM allnull`,
			expectFields: []*storage.Field{{Column: "min(num)"}, {Column: "max(num)"}, {Column: "min(str)"}, {Column: "max(str)"}},
			expect:       [][]interface{}{{nil, nil, nil, nil}},
		},
		{
			name:         "single row",
			query:        `SELECT min(num), max(num), min(str), max(str) FROM single`,
			expectFields: []*storage.Field{{Column: "min(num)"}, {Column: "max(num)"}, {Column: "min(str)"}, {Column: "max(str)"}},
			expect:       [][]interface{}{{int64(0), int64(0), "", ""}},
		},
		{
			name:         "empty table gives one row of NULLs",
			query:        `SELECT min(num), max(str) FROM empty`,
			expectFields: []*storage.Field{{Column: "min(num)"}, {Column: "max(str)"}},
			expect:       [][]interface{}{{nil, nil}},
		},
		{
			name:         "WHERE that matches nothing gives one row of NULLs",
			query:        `SELECT min(num), max(num) FROM tbl1 WHERE grp = 'nope'`,
			expectFields: []*storage.Field{{Column: "min(num)"}, {Column: "max(num)"}},
			expect:       [][]interface{}{{nil, nil}},
		},
		{
			name:         "empty input next to count and avg, which keep giving 0",
			query:        `SELECT count(*), min(num), avg(num), max(num) FROM empty`,
			expectFields: []*storage.Field{{Column: "count(*)"}, {Column: "min(num)"}, {Column: "avg(num)"}, {Column: "max(num)"}},
			expect:       [][]interface{}{{int64(0), nil, int64(0), nil}},
		},
		{
			name:         "next to count",
			query:        `SELECT count(*), count(num), min(num), max(num) FROM tbl1`,
			expectFields: []*storage.Field{{Column: "count(*)"}, {Column: "count(num)"}, {Column: "min(num)"}, {Column: "max(num)"}},
			expect:       [][]interface{}{{int64(8), int64(5), int64(-3), int64(100)}},
		},
		{
			name:  "GROUP BY, one group is all NULL, one group key is NULL",
			query: `SELECT grp, min(num), max(num), min(str), max(str) FROM tbl1 GROUP BY grp`,
			expectFields: []*storage.Field{
				{Column: "grp", TableID: "tbl1"},
				{Column: "min(num)"}, {Column: "max(num)"}, {Column: "min(str)"}, {Column: "max(str)"},
			},
			expect: [][]interface{}{
				{"x", int64(-3), int64(5), "apple", "zebra"},
				{"y", int64(7), int64(7), "", "fig"},
				{"z", nil, nil, nil, nil},
				{nil, int64(100), int64(100), "kiwi", "kiwi"},
			},
		},
		{
			name:         "GROUP BY with every value NULL",
			query:        `SELECT grp, min(num), max(str) FROM allnull GROUP BY grp`,
			expectFields: []*storage.Field{{Column: "grp", TableID: "allnull"}, {Column: "min(num)"}, {Column: "max(str)"}},
			expect: [][]interface{}{
				{"x", nil, nil},
				{"y", nil, nil},
			},
		},
		{
			name:         "GROUP BY over an empty table gives no rows",
			query:        `SELECT grp, min(num), max(num) FROM empty GROUP BY grp`,
			expectFields: []*storage.Field{{Column: "grp", TableID: "empty"}, {Column: "min(num)"}, {Column: "max(num)"}},
			expect:       nil,
		},
		{
			name:         "GROUP BY with count and avg in the same list",
			query:        `SELECT grp, count(*), max(num), avg(num) FROM tbl1 WHERE num = 5 OR num = 7 OR num = 100 GROUP BY grp`,
			expectFields: []*storage.Field{{Column: "grp", TableID: "tbl1"}, {Column: "count(*)"}, {Column: "max(num)"}, {Column: "avg(num)"}},
			expect: [][]interface{}{
				{"x", int64(1), int64(5), int64(5)},
				{"y", int64(2), int64(7), int64(7)},
				{nil, int64(1), int64(100), int64(100)},
			},
		},
		{
			name:         "GROUP BY, sorted by the group column, limited",
			query:        `SELECT grp, max(num) FROM tbl1 GROUP BY grp ORDER BY grp DESC LIMIT 2`,
			expectFields: []*storage.Field{{Column: "grp", TableID: "tbl1"}, {Column: "max(num)"}},
			expect: [][]interface{}{
				{"z", nil},
				{"y", int64(7)},
			},
		},
		{
			name:         "sorted by the alias of the aggregate",
			query:        `SELECT grp, min(str) AS lo FROM tbl1 GROUP BY grp ORDER BY lo DESC`,
			expectFields: []*storage.Field{{Column: "grp", TableID: "tbl1"}, {Column: "lo"}},
			expect: [][]interface{}{
				{nil, "kiwi"},
				{"x", "apple"},
				{"y", ""},
				{"z", nil},
			},
		},
	}

	for _, test := range tc {
		t.Run(test.name, func(t *testing.T) {
			rows, fields, err := runMinMax(t, test.query)
			if err != nil {
				t.Fatalf("unexpected error: %v", err)
			}
			if actual := minMaxVals(rows); !reflect.DeepEqual(test.expect, actual) {
				t.Errorf("expected %v, got %v", test.expect, actual)
			}
			if !reflect.DeepEqual(test.expectFields, fields) {
				t.Errorf("expected header %v, got %v", test.expectFields, fields)
			}
		})
	}
}

// the rows that an outer join pads count as NULL
func TestSelectMinMaxLeftJoin(t *testing.T) {
	rm := &mockRelationManager{
		fetch: func(tableName string) ([]*storage.Row, []*storage.Field, error) {
			switch tableName {
			case "parent":
				return []*storage.Row{
					{Vals: []interface{}{int64(1)}},
					{Vals: []interface{}{int64(2)}},
				}, []*storage.Field{{Column: "id"}}, nil
			case "child":
				return []*storage.Row{
					{Vals: []interface{}{int64(1), int64(40)}},
					{Vals: []interface{}{int64(1), int64(30)}},
				}, []*storage.Field{{Column: "parent_id"}, {Column: "val"}}, nil
			}
			return nil, nil, storage.ErrTableNotExist
		},
	}
	stmt, err := parseSQL(`SELECT p.id, min(c.val), max(c.val) FROM parent p LEFT JOIN child c ON p.id = c.parent_id GROUP BY p.id`)
	if err != nil {
		t.Fatalf("unexpected parse error: %v", err)
	}
	rows, _, err := EvaluateSelect(stmt.(sql.Select), rm)
	if err != nil {
		t.Fatalf("unexpected error: %v", err)
	}
	expect := [][]interface{}{
		{int64(1), int64(30), int64(40)},
		{int64(2), nil, nil},
	}
	if actual := minMaxVals(rows); !reflect.DeepEqual(expect, actual) {
		t.Errorf("expected %v, got %v", expect, actual)
	}
}

func TestSelectMinMaxErrors(t *testing.T) {
	t.Run("unknown column", func(t *testing.T) {
		_, _, err := runMinMax(t, `SELECT min(nope) FROM tbl1`)
		if !errors.Is(err, storage.ErrFieldNotFound) {
			t.Errorf("expected %v, got %v", storage.ErrFieldNotFound, err)
		}
	})
	t.Run("unknown column, empty table", func(t *testing.T) {
		_, _, err := runMinMax(t, `SELECT max(nope) FROM empty`)
		if !errors.Is(err, storage.ErrFieldNotFound) {
			t.Errorf("expected %v, got %v", storage.ErrFieldNotFound, err)
		}
	})
	t.Run("no FROM clause", func(t *testing.T) {
		_, _, err := runMinMax(t, `SELECT min(num)`)
		if !errors.Is(err, storage.ErrFieldNotFound) {
			t.Errorf("expected %v, got %v", storage.ErrFieldNotFound, err)
		}
	})
	t.Run("boolean column", func(t *testing.T) {
		for _, q := range []string{
			`SELECT min(flag) FROM tbl1`,
			`SELECT max(flag) FROM tbl1`,
			`SELECT grp, max(flag) FROM tbl1 GROUP BY grp`,
		} {
			rows, fields, err := runMinMax(t, q)
			if !errors.Is(err, ErrIncompatTypeCompare) {
				t.Errorf("%s: expected %v, got %v", q, ErrIncompatTypeCompare, err)
			}
			if rows != nil || fields != nil {
				t.Errorf("%s: expected no result, got %v %v", q, rows, fields)
			}
		}
	})
	t.Run("hand-built argument that is not a column", func(t *testing.T) {
		for _, vep := range []sql.ValueExpressionPrimary{
			sql.Min{ValueExpression: int64(1)},
			sql.Max{},
		} {
			q := sql.Select{
				SelectList:      sql.SelectList{{ValueExpressionPrimary: vep}},
				TableExpression: sql.TableExpression{FromClause: sql.FromClause{sql.TableName{Name: "tbl1"}}},
			}
			if _, _, err := EvaluateSelect(q, minMaxFixture()); err == nil {
				t.Errorf("%#v: expected an error", vep)
			}
		}
	})
	t.Run("values of different types in one column", func(t *testing.T) {
		rm := &mockRelationManager{
			fetch: func(tableName string) ([]*storage.Row, []*storage.Field, error) {
				return []*storage.Row{
					{Vals: []interface{}{int64(1)}},
					{Vals: []interface{}{"a"}},
				}, []*storage.Field{{Column: "col"}}, nil
			},
		}
		for _, q := range []string{`SELECT min(col) FROM tbl1`, `SELECT max(col) FROM tbl1`} {
			stmt, err := parseSQL(q)
			if err != nil {
				t.Fatalf("unexpected parse error: %v", err)
			}
			if _, _, err := EvaluateSelect(stmt.(sql.Select), rm); !errors.Is(err, ErrIncompatTypeCompare) {
				t.Errorf("%s: expected %v, got %v", q, ErrIncompatTypeCompare, err)
			}
		}
	})
}

func TestMinMaxOf(t *testing.T) {
	tc := []struct {
		fn     string
		cur    interface{}
		val    interface{}
		expect interface{}
	}{
		{"min", nil, nil, nil},
		{"max", nil, nil, nil},
		{"min", nil, int64(4), int64(4)},
		{"max", nil, "a", "a"},
		{"min", int64(4), nil, int64(4)},
		{"max", "a", nil, "a"},
		{"min", int64(4), int64(3), int64(3)},
		{"min", int64(4), int64(5), int64(4)},
		{"min", int64(4), int64(4), int64(4)},
		{"max", int64(4), int64(3), int64(4)},
		{"max", int64(4), int64(5), int64(5)},
		{"max", int64(-4), int64(-5), int64(-4)},
		{"min", "b", "a", "a"},
		{"min", "b", "c", "b"},
		{"max", "b", "a", "b"},
		{"max", "b", "c", "c"},
		{"max", "b", "B", "b"},
		{"min", "b", "", ""},
	}
	for _, test := range tc {
		actual, err := minMaxOf(test.fn, test.cur, test.val)
		if err != nil {
			t.Errorf("%s(%v, %v): unexpected error: %v", test.fn, test.cur, test.val, err)
		}
		if actual != test.expect {
			t.Errorf("%s(%v, %v): expected %v, got %v", test.fn, test.cur, test.val, test.expect, actual)
		}
	}
	for _, pair := range [][2]interface{}{{int64(1), "a"}, {"a", int64(1)}, {true, false}, {int64(1), true}} {
		if _, err := minMaxOf("min", pair[0], pair[1]); !errors.Is(err, ErrIncompatTypeCompare) {
			t.Errorf("min(%v, %v): expected %v, got %v", pair[0], pair[1], ErrIncompatTypeCompare, err)
		}
	}
}

// count and avg on their own give what they gave before
func TestSelectMinMaxLeavesOtherAggregatesAlone(t *testing.T) {
	rows, fields, err := runMinMax(t, `SELECT grp, count(num), avg(num) FROM tbl1 WHERE num = 5 OR num = 7 OR num = 100 GROUP BY grp`)
	if err != nil {
		t.Fatalf("unexpected error: %v", err)
	}
	expect := [][]interface{}{
		{"x", int64(1), int64(5)},
		{"y", int64(2), int64(7)},
		{nil, int64(1), int64(100)},
	}
	if actual := minMaxVals(rows); !reflect.DeepEqual(expect, actual) {
		t.Errorf("expected %v, got %v", expect, actual)
	}
	expectFields := []*storage.Field{{Column: "grp", TableID: "tbl1"}, {Column: "count(num)"}, {Column: "avg(num)"}}
	if !reflect.DeepEqual(expectFields, fields) {
		t.Errorf("expected header %v, got %v", expectFields, fields)
	}

	rows, _, err = runMinMax(t, `SELECT count(*), avg(num) FROM empty`)
	if err != nil {
		t.Fatalf("unexpected error: %v", err)
	}
	if actual := minMaxVals(rows); !reflect.DeepEqual([][]interface{}{{int64(0), int64(0)}}, actual) {
		t.Errorf("expected one row of zeroes, got %v", actual)
	}
}

// INT, BIGINT and VARCHAR values that were written to and read back from the
// storage layer
func TestMinMaxIntegration(t *testing.T) {
	defer storage.ClearDataDir()

	s := Session{}
	defer s.Close()

	setup := []string{
		`CREATE DATABASE minmaxdb`,
		`USE minmaxdb`,
		`CREATE TABLE visits (city varchar(255), small int, big bigint, name varchar(32))`,
		`CREATE TABLE nothing (city varchar(255), small int)`,
		// goes through the session, including the result printer
		`SELECT min(small), max(small) FROM nothing`,
		`INSERT INTO visits VALUES ('rome', 3, 5000000000, 'carl'),
			('oslo', 9, 7000000000, 'bea'),
			('rome', 1, 6000000000, 'dora')`,
		`INSERT INTO visits (city, name) VALUES ('oslo', 'abe')`,
		`INSERT INTO visits (city) VALUES ('kyiv')`,
		`SELECT city, min(small), max(big), min(name) FROM visits GROUP BY city`,
	}
	for _, q := range setup {
		if err := s.ExecQuery(q); err != nil {
			t.Fatalf("error running query:\n %s\nError: %s", q, err.Error())
		}
	}

	run := func(q string) [][]interface{} {
		t.Helper()
		stmt, err := parseSQL(q)
		if err != nil {
			t.Fatalf("%s: unexpected parse error: %v", q, err)
		}
		rows, _, err := EvaluateSelect(stmt.(sql.Select), s.RelationService)
		if err != nil {
			t.Fatalf("%s: unexpected error: %v", q, err)
		}
		return minMaxVals(rows)
	}

	expect := [][]interface{}{{int64(1), int64(9), int64(5000000000), int64(7000000000), "abe", "dora"}}
	if actual := run(`SELECT min(small), max(small), min(big), max(big), min(name), max(name) FROM visits`); !reflect.DeepEqual(expect, actual) {
		t.Errorf("expected %v, got %v", expect, actual)
	}

	expect = [][]interface{}{
		{"kyiv", nil, nil, nil},
		{"oslo", int64(9), int64(7000000000), "abe"},
		{"rome", int64(1), int64(6000000000), "carl"},
	}
	if actual := run(`SELECT city, min(small), max(big), min(name) FROM visits GROUP BY city ORDER BY city`); !reflect.DeepEqual(expect, actual) {
		t.Errorf("expected %v, got %v", expect, actual)
	}

	expect = [][]interface{}{{nil, nil}}
	if actual := run(`SELECT min(small), max(city) FROM nothing`); !reflect.DeepEqual(expect, actual) {
		t.Errorf("expected %v, got %v", expect, actual)
	}
	if actual := run(`SELECT city, min(small) FROM nothing GROUP BY city`); len(actual) != 0 {
		t.Errorf("expected no rows, got %v", actual)
	}
}
