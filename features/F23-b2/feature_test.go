package engine

import (
	"errors"
	"reflect"
	"testing"

	"github.com/mk6i/mkdb/sql"
	"github.com/mk6i/mkdb/storage"
)

// nullSelect runs a SELECT against the session's database and returns the
// result values.
func nullSelect(t *testing.T, s *Session, q string) [][]interface{} {
	t.Helper()
	stmt, err := parseSQL(q)
	if err != nil {
		t.Fatalf("parsing %s: %s", q, err)
	}
	rows, _, err := EvaluateSelect(stmt.(sql.Select), s.RelationService)
	if err != nil {
		t.Fatalf("running %s: %s", q, err)
	}
	ret := make([][]interface{}, 0, len(rows))
	for _, row := range rows {
		ret = append(ret, row.Vals)
	}
	return ret
}

func nullSession(t *testing.T, queries ...string) *Session {
	t.Helper()
	s := &Session{}
	for _, q := range queries {
		if err := s.ExecQuery(q); err != nil {
			t.Fatalf("error running query:\n %s\nError: %s", q, err.Error())
		}
	}
	return s
}

func TestNullLiteralParseInsert(t *testing.T) {
	stmt, err := parseSQL(`INSERT INTO t (a, b, c) VALUES (NULL, 'x', null), (1, Null, true), (NULL)`)
	if err != nil {
		t.Fatal(err)
	}
	expect := sql.InsertStatement{
		TableName: "t",
		InsertColumnsAndSource: sql.InsertColumnsAndSource{
			InsertColumnList: sql.InsertColumnList{ColumnNames: []string{"a", "b", "c"}},
			QueryExpression: sql.TableValueConstructor{
				TableValueConstructorList: []sql.RowValueConstructor{
					{RowValueConstructorList: []interface{}{nil, "x", nil}},
					{RowValueConstructorList: []interface{}{int64(1), nil, true}},
					{RowValueConstructorList: []interface{}{nil}},
				},
			},
		},
	}
	if !reflect.DeepEqual(expect, stmt) {
		t.Errorf("expected %+v, got %+v", expect, stmt)
	}

	// a statement without NULL parses to what it parsed to before
	stmt, err = parseSQL(`INSERT INTO t VALUES (1, 'null', false)`)
	if err != nil {
		t.Fatal(err)
	}
	expect = sql.InsertStatement{
		TableName: "t",
		InsertColumnsAndSource: sql.InsertColumnsAndSource{
			QueryExpression: sql.TableValueConstructor{
				TableValueConstructorList: []sql.RowValueConstructor{
					{RowValueConstructorList: []interface{}{int64(1), "null", false}},
				},
			},
		},
	}
	if !reflect.DeepEqual(expect, stmt) {
		t.Errorf("expected %+v, got %+v", expect, stmt)
	}

	for _, q := range []string{
		`INSERT INTO t VALUES (NULL NULL)`,
		`INSERT INTO t VALUES (NULL`,
		`INSERT INTO t VALUES NULL`,
		`INSERT INTO t (NULL) VALUES (1)`,
		`INSERT INTO NULL VALUES (1)`,
	} {
		if _, err := parseSQL(q); err == nil {
			t.Errorf("%s: expected a parse error", q)
		}
	}
}

func TestNullLiteralParseUpdate(t *testing.T) {
	stmt, err := parseSQL(`UPDATE t SET a = NULL, b = 1, c = null WHERE d = 2;`)
	if err != nil {
		t.Fatal(err)
	}
	expect := sql.UpdateStatementSearched{
		TableName: "t",
		Set: []sql.SetClause{
			{ObjectColumn: "a", UpdateSource: nil},
			{ObjectColumn: "b", UpdateSource: int64(1)},
			{ObjectColumn: "c", UpdateSource: nil},
		},
		Where: sql.WhereClause{
			SearchCondition: sql.Predicate{
				ComparisonPredicate: sql.ComparisonPredicate{
					LHS:    sql.ColumnReference{ColumnName: "d"},
					CompOp: sql.EQ,
					RHS:    int64(2),
				},
			},
		},
	}
	if !reflect.DeepEqual(expect, stmt) {
		t.Errorf("expected %+v, got %+v", expect, stmt)
	}

	stmt, err = parseSQL(`UPDATE t SET a = NULL`)
	if err != nil {
		t.Fatal(err)
	}
	expect = sql.UpdateStatementSearched{
		TableName: "t",
		Set:       []sql.SetClause{{ObjectColumn: "a"}},
	}
	if !reflect.DeepEqual(expect, stmt) {
		t.Errorf("expected %+v, got %+v", expect, stmt)
	}

	// NULL is accepted as an update source only
	for _, q := range []string{
		`UPDATE t SET a = NULL NULL`,
		`UPDATE t SET a = NULL b = 1`,
		`UPDATE t SET NULL = 1`,
		`UPDATE t SET a = `,
		`UPDATE t SET a = 1 WHERE a = NULL`,
		`UPDATE t SET a = NULL WHERE NULL = a`,
		`DELETE FROM t WHERE a = NULL`,
		`SELECT a FROM t WHERE a = NULL`,
		`SELECT NULL`,
	} {
		if _, err := parseSQL(q); err == nil {
			t.Errorf("%s: expected a parse error", q)
		}
	}
	if _, err := parseSQL(`UPDATE t SET a = WHERE`); !errors.Is(err, sql.ErrUnexpectedToken) {
		t.Errorf("expected ErrUnexpectedToken, got %v", err)
	}
}

func TestNullLiteralInsert(t *testing.T) {
	defer storage.ClearDataDir()

	s := nullSession(t,
		`CREATE DATABASE nulldb`,
		`USE nulldb`,
		`CREATE TABLE things (id int, name varchar(20), ok boolean, big bigint)`,
		`INSERT INTO things VALUES (1, NULL, true, 10)`,
		`INSERT INTO things VALUES (NULL, NULL, NULL, NULL)`,
		`INSERT INTO things (name, id) VALUES (NULL, 3), ('four', NULL)`,
		`INSERT INTO things VALUES (5, 'NULL', false, NULL)`,
	)
	defer s.Close()

	expect := [][]interface{}{
		{int64(1), nil, true, int64(10)},
		{nil, nil, nil, nil},
		{int64(3), nil, nil, nil},
		{nil, "four", nil, nil},
		{int64(5), "NULL", false, nil},
	}
	if got := nullSelect(t, s, `SELECT id, name, ok, big FROM things`); !reflect.DeepEqual(expect, got) {
		t.Errorf("expected %v, got %v", expect, got)
	}
	// count(col) skips the NULLs
	expect = [][]interface{}{{int64(5), int64(3), int64(2), int64(2), int64(1)}}
	if got := nullSelect(t, s, `SELECT count(*), count(id), count(name), count(ok), count(big) FROM things`); !reflect.DeepEqual(expect, got) {
		t.Errorf("expected %v, got %v", expect, got)
	}

	// the column count is still checked, a NULL counts as a value
	for _, q := range []string{
		`INSERT INTO things VALUES (NULL)`,
		`INSERT INTO things VALUES (1, NULL, true, 10, NULL)`,
		`INSERT INTO things (id) VALUES (NULL, NULL)`,
	} {
		if err := s.ExecQuery(q); err != storage.ErrColCountMismatch {
			t.Errorf("%s: expected ErrColCountMismatch, got %v", q, err)
		}
	}
	if err := s.ExecQuery(`INSERT INTO nothings VALUES (NULL)`); err != storage.ErrTableNotExist {
		t.Errorf("expected ErrTableNotExist, got %v", err)
	}
	// a NULL next to a mistyped value: the row is refused
	if err := s.ExecQuery(`INSERT INTO things VALUES (NULL, 7, NULL, NULL)`); err != storage.ErrTypeMismatch {
		t.Errorf("expected ErrTypeMismatch, got %v", err)
	}
	if got := nullSelect(t, s, `SELECT count(*) FROM things`); !reflect.DeepEqual([][]interface{}{{int64(5)}}, got) {
		t.Errorf("expected 5 rows, got %v", got)
	}
}

func TestNullLiteralUpdate(t *testing.T) {
	defer storage.ClearDataDir()

	s := nullSession(t,
		`CREATE DATABASE nulldb`,
		`USE nulldb`,
		`CREATE TABLE things (id int, name varchar(20), ok boolean, big bigint)`,
	)
	defer s.Close()

	// empty table: nothing to do, no error
	if err := s.ExecQuery(`UPDATE things SET name = NULL`); err != nil {
		t.Fatal(err)
	}
	if got := nullSelect(t, s, `SELECT * FROM things`); len(got) != 0 {
		t.Errorf("expected no rows, got %v", got)
	}

	for _, q := range []string{
		`INSERT INTO things VALUES (1, 'one', true, 10), (2, 'two', false, 20), (3, 'three', true, 30)`,
		`INSERT INTO things (id) VALUES (4)`,
		// one column of one row
		`UPDATE things SET name = NULL WHERE id = 2`,
		// no matching row
		`UPDATE things SET id = NULL WHERE id = 99`,
		// every type, mixed with an ordinary value
		`UPDATE things SET ok = NULL, big = NULL, name = 'THREE' WHERE id = 3`,
		// a value that is NULL already
		`UPDATE things SET name = NULL, ok = NULL WHERE id = 4`,
	} {
		if err := s.ExecQuery(q); err != nil {
			t.Fatalf("%s: %s", q, err)
		}
	}

	expect := [][]interface{}{
		{int64(1), "one", true, int64(10)},
		{int64(2), nil, false, int64(20)},
		{int64(3), "THREE", nil, nil},
		{int64(4), nil, nil, nil},
	}
	if got := nullSelect(t, s, `SELECT id, name, ok, big FROM things`); !reflect.DeepEqual(expect, got) {
		t.Errorf("expected %v, got %v", expect, got)
	}

	// a failing statement changes nothing, whatever the order of the clauses
	for q, expectErr := range map[string]error{
		`UPDATE things SET name = NULL, id = 2147483648`:      storage.ErrIntOutOfRange,
		`UPDATE things SET id = 2147483648, name = NULL`:      storage.ErrIntOutOfRange,
		`UPDATE things SET big = NULL, ok = 'yes'`:            storage.ErrTypeMismatch,
		`UPDATE things SET name = NULL, big = id`:             ErrTmpUnsupportedSyntax,
		`UPDATE nothings SET name = NULL`:                     storage.ErrTableNotExist,
		`UPDATE things SET name = NULL WHERE nosuchfield = 1`: storage.ErrFieldNotFound,
	} {
		if err := s.ExecQuery(q); !errors.Is(err, expectErr) {
			t.Errorf("%s: expected %v, got %v", q, expectErr, err)
		}
	}
	if got := nullSelect(t, s, `SELECT id, name, ok, big FROM things`); !reflect.DeepEqual(expect, got) {
		t.Errorf("expected %v, got %v", expect, got)
	}

	// a NULL can be overwritten again
	if err := s.ExecQuery(`UPDATE things SET name = 'two again' WHERE id = 2`); err != nil {
		t.Fatal(err)
	}
	// all rows, all columns
	if err := s.ExecQuery(`UPDATE things SET ok = NULL, big = NULL`); err != nil {
		t.Fatal(err)
	}
	expect = [][]interface{}{
		{int64(1), "one", nil, nil},
		{int64(2), "two again", nil, nil},
		{int64(3), "THREE", nil, nil},
		{int64(4), nil, nil, nil},
	}
	if got := nullSelect(t, s, `SELECT id, name, ok, big FROM things`); !reflect.DeepEqual(expect, got) {
		t.Errorf("expected %v, got %v", expect, got)
	}
	// NULLs sort first
	expectOrder := [][]interface{}{{int64(4), nil}, {int64(3), "THREE"}, {int64(1), "one"}, {int64(2), "two again"}}
	if got := nullSelect(t, s, `SELECT id, name FROM things ORDER BY name`); !reflect.DeepEqual(expectOrder, got) {
		t.Errorf("expected %v, got %v", expectOrder, got)
	}
}

// NULLs written by INSERT and UPDATE survive closing and reopening the
// database
func TestNullLiteralReopen(t *testing.T) {
	defer storage.ClearDataDir()

	s := nullSession(t,
		`CREATE DATABASE nulldb`,
		`USE nulldb`,
		`CREATE TABLE things (id int, name varchar(20))`,
		`INSERT INTO things VALUES (1, NULL), (2, 'two')`,
		`UPDATE things SET name = NULL WHERE id = 2`,
		`UPDATE things SET id = NULL WHERE id = 1`,
	)
	if err := s.Close(); err != nil {
		t.Fatal(err)
	}

	s = nullSession(t, `USE nulldb`)
	defer s.Close()

	expect := [][]interface{}{{nil, nil}, {int64(2), nil}}
	if got := nullSelect(t, s, `SELECT id, name FROM things`); !reflect.DeepEqual(expect, got) {
		t.Errorf("expected %v, got %v", expect, got)
	}
}
