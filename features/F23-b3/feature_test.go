package engine

import (
	"errors"
	"reflect"
	"testing"

	"github.com/mk6i/mkdb/sql"
	"github.com/mk6i/mkdb/storage"
)

// ifNotExistsSelect runs a SELECT against the session's database and returns
// the result values.
func ifNotExistsSelect(t *testing.T, s *Session, q string) [][]interface{} {
	t.Helper()
	stmt, err := parseSQL(q)
	if err != nil {
		t.Fatalf("parsing %s: %s", q, err)
	}
	rows, _, err := EvaluateSelect(stmt.(sql.Select), s.RelationService)
	if err != nil {
		t.Fatalf("running %s: %s", q, err)
	}
	ret := make([][]interface{}, 0, len(rows))
	for _, row := range rows {
		ret = append(ret, row.Vals)
	}
	return ret
}

func ifNotExistsSession(t *testing.T, queries ...string) *Session {
	t.Helper()
	s := &Session{}
	for _, q := range queries {
		if err := s.ExecQuery(q); err != nil {
			t.Fatalf("error running query:\n %s\nError: %s", q, err.Error())
		}
	}
	return s
}

func TestCreateTableIfNotExistsParse(t *testing.T) {
	elements := []sql.TableElement{
		{ColumnDefinition: sql.ColumnDefinition{Name: "a", DataType: sql.NumericType{}}},
		{ColumnDefinition: sql.ColumnDefinition{Name: "b", DataType: sql.CharacterStringType{Len: 10, Type: sql.T_VARCHAR}}},
	}

	for q, expect := range map[string]sql.CreateTable{
		`CREATE TABLE IF NOT EXISTS t (a int, b varchar(10))`:   {Name: "t", Elements: elements, IfNotExists: true},
		`create table if not exists t (a int, b varchar(10));`:  {Name: "t", Elements: elements, IfNotExists: true},
		`CREATE TABLE If Not Exists "t" (a int, b varchar(10))`: {Name: "t", Elements: elements, IfNotExists: true},
		// the plain statement parses to what it parsed to before
		`CREATE TABLE t (a int, b varchar(10))`: {Name: "t", Elements: elements},
		// if is not a reserved word
		`CREATE TABLE if (a int, b varchar(10))`:               {Name: "if", Elements: elements},
		`CREATE TABLE IF (a int, b varchar(10))`:               {Name: "IF", Elements: elements},
		`CREATE TABLE IF NOT EXISTS if (a int, b varchar(10))`: {Name: "if", Elements: elements, IfNotExists: true},
	} {
		stmt, err := parseSQL(q)
		if err != nil {
			t.Errorf("parsing %s: %s", q, err)
			continue
		}
		if !reflect.DeepEqual(expect, stmt) {
			t.Errorf("%s: expected %+v, got %+v", q, expect, stmt)
		}
	}

	for _, q := range []string{
		`CREATE TABLE IF NOT t (a int)`,
		`CREATE TABLE IF NOT (a int)`,
		`CREATE TABLE IF NOT`,
		`CREATE TABLE IF`,
		`CREATE TABLE IF NOT EXISTS`,
		`CREATE TABLE IF NOT EXISTS t`,
		`CREATE TABLE IF NOT EXISTS t (a unknowntype)`,
		`CREATE TABLE IF NOT EXISTS t (a int) extra`,
		`CREATE TABLE IF EXISTS t (a int)`,
		`CREATE TABLE NOT EXISTS t (a int)`,
		`CREATE TABLE IF NOT EXISTS IF NOT EXISTS t (a int)`,
		`CREATE TABLE t IF NOT EXISTS (a int)`,
		`CREATE DATABASE IF NOT EXISTS d`,
	} {
		if _, err := parseSQL(q); err == nil {
			t.Errorf("%s: expected a parse error", q)
		}
	}
	if _, err := parseSQL(`CREATE TABLE IF NOT t (a int)`); !errors.Is(err, sql.ErrUnexpectedToken) {
		t.Errorf("expected ErrUnexpectedToken, got %v", err)
	}
}

func TestCreateTableIfNotExists(t *testing.T) {
	defer storage.ClearDataDir()

	s := ifNotExistsSession(t,
		`CREATE DATABASE ifnotexistsdb`,
		`USE ifnotexistsdb`,
		// the table is not there: it is created
		`CREATE TABLE IF NOT EXISTS people (id int, name varchar(20))`,
		`INSERT INTO people VALUES (1, 'one'), (2, 'two')`,
	)
	defer s.Close()

	catalog := func() [][]interface{} {
		ret := ifNotExistsSelect(t, s, `SELECT table_name, file_offset FROM sys_pages`)
		return append(ret, ifNotExistsSelect(t, s, `SELECT table_name, field_name, field_type, field_length FROM sys_schema`)...)
	}
	before := catalog()

	expectSchema := [][]interface{}{
		{"id", int64(storage.TypeInt), int64(0)},
		{"name", int64(storage.TypeVarchar), int64(20)},
	}
	if got := ifNotExistsSelect(t, s, `SELECT field_name, field_type, field_length FROM sys_schema WHERE table_name = 'people'`); !reflect.DeepEqual(expectSchema, got) {
		t.Errorf("expected %v, got %v", expectSchema, got)
	}

	// the table is there: no error, nothing changes, whatever the definition
	for _, q := range []string{
		`CREATE TABLE IF NOT EXISTS people (id int, name varchar(20))`,
		`CREATE TABLE IF NOT EXISTS people (other bigint)`,
		`create table if not exists people (id int, name varchar(20));`,
		// a catalog table
		`CREATE TABLE IF NOT EXISTS sys_pages (x int)`,
	} {
		if err := s.ExecQuery(q); err != nil {
			t.Errorf("%s: %s", q, err)
		}
	}
	if got := catalog(); !reflect.DeepEqual(before, got) {
		t.Errorf("the catalog changed: expected %v, got %v", before, got)
	}
	expect := [][]interface{}{{int64(1), "one"}, {int64(2), "two"}}
	if got := ifNotExistsSelect(t, s, `SELECT id, name FROM people`); !reflect.DeepEqual(expect, got) {
		t.Errorf("expected %v, got %v", expect, got)
	}

	// the plain statement still refuses an existing table
	if err := s.ExecQuery(`CREATE TABLE people (id int, name varchar(20))`); err != storage.ErrTableAlreadyExist {
		t.Errorf("expected ErrTableAlreadyExist, got %v", err)
	}

	// table names are case sensitive, as they are for the plain statement
	if err := s.ExecQuery(`CREATE TABLE IF NOT EXISTS People (id int)`); err != nil {
		t.Fatal(err)
	}
	if got := ifNotExistsSelect(t, s, `SELECT * FROM People`); len(got) != 0 {
		t.Errorf("expected an empty table, got %v", got)
	}
	if err := s.ExecQuery(`CREATE TABLE People (id int)`); err != storage.ErrTableAlreadyExist {
		t.Errorf("expected ErrTableAlreadyExist, got %v", err)
	}

	// a table that cannot be created is an error with IF NOT EXISTS too, and
	// leaves nothing behind
	before = catalog()
	tooLong := make([]byte, 500)
	for i := range tooLong {
		tooLong[i] = 'x'
	}
	for _, q := range []string{
		`CREATE TABLE IF NOT EXISTS ` + string(tooLong) + ` (id int)`,
		`CREATE TABLE IF NOT EXISTS pets (id int, ` + string(tooLong) + ` int)`,
	} {
		if err := s.ExecQuery(q); err == nil {
			t.Errorf("%s: expected an error", q)
		}
	}
	if got := catalog(); !reflect.DeepEqual(before, got) {
		t.Errorf("the catalog changed: expected %v, got %v", before, got)
	}
	if err := s.ExecQuery(`SELECT * FROM pets`); err != storage.ErrTableNotExist {
		t.Errorf("expected ErrTableNotExist, got %v", err)
	}
	// the name is free for the next attempt
	if err := s.ExecQuery(`CREATE TABLE IF NOT EXISTS pets (id int)`); err != nil {
		t.Error(err)
	}
}

// a table created by IF NOT EXISTS, and one it skipped, after closing and
// reopening the database
func TestCreateTableIfNotExistsReopen(t *testing.T) {
	defer storage.ClearDataDir()

	s := ifNotExistsSession(t,
		`CREATE DATABASE ifnotexistsdb`,
		`USE ifnotexistsdb`,
		`CREATE TABLE IF NOT EXISTS people (id int, name varchar(20))`,
		`INSERT INTO people VALUES (1, 'one')`,
	)
	if err := s.Close(); err != nil {
		t.Fatal(err)
	}

	s = ifNotExistsSession(t,
		`USE ifnotexistsdb`,
		`CREATE TABLE IF NOT EXISTS people (id int, name varchar(20))`,
		`CREATE TABLE IF NOT EXISTS pets (id int)`,
	)
	if err := s.Close(); err != nil {
		t.Fatal(err)
	}

	s = ifNotExistsSession(t, `USE ifnotexistsdb`)
	defer s.Close()

	expect := [][]interface{}{{int64(1), "one"}}
	if got := ifNotExistsSelect(t, s, `SELECT id, name FROM people`); !reflect.DeepEqual(expect, got) {
		t.Errorf("expected %v, got %v", expect, got)
	}
	if got := ifNotExistsSelect(t, s, `SELECT id FROM pets`); len(got) != 0 {
		t.Errorf("expected an empty table, got %v", got)
	}
	expect = [][]interface{}{{"sys_pages"}, {"sys_schema"}, {"people"}, {"pets"}}
	if got := ifNotExistsSelect(t, s, `SELECT table_name FROM sys_pages`); !reflect.DeepEqual(expect, got) {
		t.Errorf("expected %v, got %v", expect, got)
	}
}

func TestCreateTableIfNotExistsNoDatabase(t *testing.T) {
	s := &Session{}
	if err := s.ExecQuery(`CREATE TABLE IF NOT EXISTS people (id int)`); err == nil {
		t.Errorf("expected an error without a selected database")
	}
}

// the storage layer answers ErrTableAlreadyExist when its catalog lookup
// fails, too: IF NOT EXISTS skips the table only when the catalog lists it
func TestCreateTableIfNotExistsLookup(t *testing.T) {
	errLookup := errors.New("lookup failed")
	pageTable := func(names ...string) ([]*storage.Row, []*storage.Field, error) {
		var rows []*storage.Row
		for i, name := range names {
			rows = append(rows, &storage.Row{RowID: uint32(i), Vals: []interface{}{name, int64(4096 * (i + 1))}})
		}
		return rows, []*storage.Field{{Column: "table_name"}, {Column: "file_offset"}}, nil
	}

	tc := []struct {
		name          string
		ifNotExists   bool
		createErr     error
		fetch         func() ([]*storage.Row, []*storage.Field, error)
		expectFetch   bool
		expectCreated bool
		expectErr     error
	}{
		{
			name:          "plain, created",
			expectCreated: true,
		},
		{
			name:      "plain, exists",
			createErr: storage.ErrTableAlreadyExist,
			expectErr: storage.ErrTableAlreadyExist,
		},
		{
			name:      "plain, other error",
			createErr: errLookup,
			expectErr: errLookup,
		},
		{
			name:          "if not exists, created",
			ifNotExists:   true,
			expectCreated: true,
		},
		{
			name:        "if not exists, other error",
			ifNotExists: true,
			createErr:   errLookup,
			expectErr:   errLookup,
		},
		{
			name:        "if not exists, listed",
			ifNotExists: true,
			createErr:   storage.ErrTableAlreadyExist,
			fetch: func() ([]*storage.Row, []*storage.Field, error) {
				return pageTable("sys_pages", "sys_schema", "people")
			},
			expectFetch: true,
		},
		{
			name:        "if not exists, not listed",
			ifNotExists: true,
			createErr:   storage.ErrTableAlreadyExist,
			fetch: func() ([]*storage.Row, []*storage.Field, error) {
				return pageTable("sys_pages", "sys_schema", "People", "peoples")
			},
			expectFetch: true,
			expectErr:   storage.ErrTableAlreadyExist,
		},
		{
			name:        "if not exists, empty catalog",
			ifNotExists: true,
			createErr:   storage.ErrTableAlreadyExist,
			fetch: func() ([]*storage.Row, []*storage.Field, error) {
				return pageTable()
			},
			expectFetch: true,
			expectErr:   storage.ErrTableAlreadyExist,
		},
		{
			name:        "if not exists, catalog unreadable",
			ifNotExists: true,
			createErr:   storage.ErrTableAlreadyExist,
			fetch: func() ([]*storage.Row, []*storage.Field, error) {
				return nil, nil, errLookup
			},
			expectFetch: true,
			expectErr:   errLookup,
		},
	}

	for _, test := range tc {
		t.Run(test.name, func(t *testing.T) {
			creates := 0
			fetched := false
			rm := &mockRelationManager{
				createTable: func(r *storage.Relation, tableName string) error {
					creates++
					expect := &storage.Relation{Fields: []storage.FieldDef{{Name: "id", DataType: storage.TypeInt}}}
					if tableName != "people" || !reflect.DeepEqual(expect, r) {
						t.Errorf("unexpected CreateTable(%v, %s)", r, tableName)
					}
					return test.createErr
				},
				fetch: func(tableName string) ([]*storage.Row, []*storage.Field, error) {
					fetched = true
					if tableName != "sys_pages" {
						t.Errorf("unexpected Fetch(%s)", tableName)
					}
					return test.fetch()
				},
			}
			q := sql.CreateTable{
				Name:        "people",
				IfNotExists: test.ifNotExists,
				Elements: []sql.TableElement{
					{ColumnDefinition: sql.ColumnDefinition{Name: "id", DataType: sql.NumericType{}}},
				},
			}

			created, err := createTable(q, rm)
			if err != test.expectErr {
				t.Errorf("expected error %v, got %v", test.expectErr, err)
			}
			if created != test.expectCreated {
				t.Errorf("expected created=%v, got %v", test.expectCreated, created)
			}
			if creates != 1 {
				t.Errorf("expected one CreateTable call, got %d", creates)
			}
			if fetched != test.expectFetch {
				t.Errorf("expected fetched=%v, got %v", test.expectFetch, fetched)
			}

			// the exported entry point returns the same error
			if err := EvaluateCreateTable(q, rm); err != test.expectErr {
				t.Errorf("EvaluateCreateTable: expected error %v, got %v", test.expectErr, err)
			}
		})
	}
}
