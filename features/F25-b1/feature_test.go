package main

import (
	"bytes"
	"errors"
	"io"
	"reflect"
	"testing"
)

// newQuitTestTerminal returns a terminal that reads the given key presses and
// discards its echo (a single buffer for both directions would feed the echo
// back in as input).
func newQuitTestTerminal(input string) *Terminal {
	return NewTerminal(struct {
		io.Reader
		io.Writer
	}{bytes.NewBufferString(input), io.Discard}, "")
}

func TestIsQuitCommand(t *testing.T) {
	tests := []struct {
		line string
		want bool
	}{
		{"q", true},
		{"quit", true},
		{"exit", true},
		{"QUIT", true},
		{"Exit", true},
		{"  quit  ", true},
		{"quit;", true},
		{"quit ;", true},
		{" q ; ", true},
		{"", false},
		{" ", false},
		{";", false},
		{"quit;;", false},
		{"quit now", false},
		{"quit; quit", false},
		{"SELECT quit", false},
		{"SELECT 'a quit", false},
		{"qu", false},
		{"quit()", false},
		{"SELECT 1; quit", false},
	}
	for _, tc := range tests {
		if got := isQuitCommand([]rune(tc.line)); got != tc.want {
			t.Errorf("isQuitCommand(%q) = %v, want %v", tc.line, got, tc.want)
		}
	}
}

func TestReadLineQuit(t *testing.T) {
	for _, cmd := range []string{"q", "quit", "exit", "EXIT", " quit ", "quit;"} {
		term := newQuitTestTerminal("USE testdb;\r" + cmd + "\rUSE other;\r")

		line, err := term.ReadLine()
		if err != nil {
			t.Fatalf("%q: unexpected error: %s", cmd, err)
		}
		if want := []string{"USE testdb;"}; !reflect.DeepEqual(line, want) {
			t.Fatalf("%q: got %q, want %q", cmd, line, want)
		}

		line, err = term.ReadLine()
		if err != ErrQuit {
			t.Fatalf("%q: got error %v, want ErrQuit", cmd, err)
		}
		if len(line) != 0 {
			t.Errorf("%q: quit returned statements %q", cmd, line)
		}

		// the terminal stays usable and does not report quit twice
		line, err = term.ReadLine()
		if err != nil {
			t.Fatalf("%q: unexpected error after quit: %s", cmd, err)
		}
		if want := []string{"USE other;"}; !reflect.DeepEqual(line, want) {
			t.Errorf("%q: got %q, want %q", cmd, line, want)
		}
	}
}

func TestReadLineQuitInsideStatement(t *testing.T) {
	tests := []struct {
		name  string
		input string
		want  []string
	}{
		{
			name:  "continuation line of an unfinished statement",
			input: "SELECT a FROM t WHERE b =\rquit\r;\r",
			want:  []string{"SELECT a FROM t WHERE b = quit ;"},
		},
		{
			name:  "inside an unfinished string literal",
			input: "SELECT 'a\rquit\r';\r",
			want:  []string{"SELECT 'a quit ';"},
		},
		{
			name:  "after a complete statement on the same line",
			input: "USE a; quit\r;\r",
			want:  []string{"USE a;", "quit ;"},
		},
		{
			name:  "before a statement on the same line",
			input: "quit; USE a;\r",
			want:  []string{"quit;", "USE a;"},
		},
		{
			name:  "longer word",
			input: "quitter\r;\r",
			want:  []string{"quitter ;"},
		},
	}
	for _, tc := range tests {
		term := newQuitTestTerminal(tc.input)
		line, err := term.ReadLine()
		if err != nil {
			t.Errorf("%s: unexpected error: %v", tc.name, err)
			continue
		}
		if !reflect.DeepEqual(line, tc.want) {
			t.Errorf("%s: got %q, want %q", tc.name, line, tc.want)
		}
	}
}

func TestReadLineEmptyLineAndEOFUnchanged(t *testing.T) {
	// an empty line completes with no statements; ^D on an empty line and
	// the end of the input are still io.EOF, not ErrQuit
	term := newQuitTestTerminal("\r\x04")
	line, err := term.ReadLine()
	if err != nil || len(line) != 0 {
		t.Fatalf("empty line: got %q, %v", line, err)
	}
	if _, err = term.ReadLine(); err != io.EOF {
		t.Fatalf("^D: got error %v, want io.EOF", err)
	}

	term = newQuitTestTerminal("qui")
	if _, err = term.ReadLine(); err != io.EOF {
		t.Fatalf("end of input: got error %v, want io.EOF", err)
	}
}

func TestReadEvalLoopQuit(t *testing.T) {
	term := newQuitTestTerminal("USE a;\rUSE b; USE c;\rquit\rUSE d;\r")

	var executed []string
	closed := 0
	err := readEvalLoop(term,
		func(q string) error {
			if closed > 0 {
				t.Errorf("statement %q executed after the session was closed", q)
			}
			executed = append(executed, q)
			return nil
		},
		func() error {
			closed++
			return nil
		})
	if err != nil {
		t.Fatalf("unexpected error: %s", err)
	}
	if closed != 1 {
		t.Errorf("session closed %d times, want 1", closed)
	}
	if want := []string{"USE a;", "USE b;", "USE c;"}; !reflect.DeepEqual(executed, want) {
		t.Errorf("executed %q, want %q", executed, want)
	}
}

func TestReadEvalLoopQuitCloseError(t *testing.T) {
	term := newQuitTestTerminal("exit\r")
	errClose := errors.New("flush failed")
	err := readEvalLoop(term,
		func(q string) error {
			t.Errorf("unexpected statement %q", q)
			return nil
		},
		func() error { return errClose })
	if err != errClose {
		t.Errorf("got error %v, want %v", err, errClose)
	}
}

func TestReadEvalLoopEOFLeavesSessionOpen(t *testing.T) {
	// statement errors do not stop the loop, and the end of the input ends
	// it without closing the session, as before
	term := newQuitTestTerminal("USE a;\rUSE b;\r\x04")
	var executed []string
	err := readEvalLoop(term,
		func(q string) error {
			executed = append(executed, q)
			return errors.New("no such database")
		},
		func() error {
			t.Error("session closed at the end of the input")
			return nil
		})
	if err != nil {
		t.Fatalf("unexpected error: %s", err)
	}
	if want := []string{"USE a;", "USE b;"}; !reflect.DeepEqual(executed, want) {
		t.Errorf("executed %q, want %q", executed, want)
	}
}
