package main

import (
	"errors"
	"flag"
	"io"
	"reflect"
	"strings"
	"testing"

	"github.com/mk6i/mkdb/storage"
)

// skipRowsRun feeds input to an import routine and gathers everything it
// reports.
type skipRowsRun struct {
	rows  [][]interface{}
	ok    int
	errs  []error
	stats *importStats
}

func runSkipRows(t *testing.T, cfg importCfg, r io.Reader, insertErr error) skipRowsRun {
	t.Helper()

	var run skipRowsRun

	rm := &mockRelationManager{
		insert: func(tableName string, cols []string, vals []interface{}) (storage.WALBatch, error) {
			if insertErr != nil {
				return nil, insertErr
			}
			run.rows = append(run.rows, vals)
			return []*storage.WALEntry{}, nil
		},
		flushWALBatch: func(batch storage.WALBatch) error {
			return nil
		},
	}

	chOk, chErr, stats := startBatchInsert(rm, cfg, r)
	for chOk != nil || chErr != nil {
		select {
		case _, ok := <-chOk:
			if ok {
				run.ok++
			} else {
				chOk = nil
			}
		case err, ok := <-chErr:
			if ok {
				run.errs = append(run.errs, err)
			} else {
				chErr = nil
			}
		}
	}
	run.stats = stats

	return run
}

func skipRowsCfg(skip int) importCfg {
	return importCfg{
		table:   "author",
		dstCols: []string{"name", "age"},
		srcCols: []int{0, 1},
		colTypes: []storage.DataType{
			storage.TypeVarchar,
			storage.TypeInt,
		},
		separator: ',',
		skipRows:  skip,
	}
}

func TestSkipRows(t *testing.T) {
	input := strings.Join([]string{
		"name,age",
		"text,years",
		"Person1,10",
		"Person2,\\N",
	}, "\n")

	all := [][]interface{}{
		{"Person1", int64(10)},
		{"Person2", nil},
	}

	tests := []struct {
		name        string
		skip        int
		wantRows    [][]interface{}
		wantErrs    int
		wantSkipped int
	}{
		{name: "no skipping converts the headers and fails", skip: 0, wantRows: all, wantErrs: 2, wantSkipped: 0},
		{name: "one header skipped", skip: 1, wantRows: all, wantErrs: 1, wantSkipped: 1},
		{name: "both headers skipped", skip: 2, wantRows: all, wantErrs: 0, wantSkipped: 2},
		{name: "a data record skipped as well", skip: 3, wantRows: all[1:], wantErrs: 0, wantSkipped: 3},
		{name: "everything skipped", skip: 4, wantRows: nil, wantErrs: 0, wantSkipped: 4},
		{name: "more than the input holds", skip: 100, wantRows: nil, wantErrs: 0, wantSkipped: 4},
	}

	for _, tc := range tests {
		t.Run(tc.name, func(t *testing.T) {
			run := runSkipRows(t, skipRowsCfg(tc.skip), strings.NewReader(input), nil)
			if !reflect.DeepEqual(tc.wantRows, run.rows) {
				t.Errorf("rows do not match. expected: %v actual: %v", tc.wantRows, run.rows)
			}
			if run.ok != len(tc.wantRows) {
				t.Errorf("ok events do not match. expected: %d actual: %d", len(tc.wantRows), run.ok)
			}
			if len(run.errs) != tc.wantErrs {
				t.Errorf("errors do not match. expected: %d actual: %v", tc.wantErrs, run.errs)
			}
			for _, err := range run.errs {
				if !errors.Is(err, errMalformedRow) {
					t.Errorf("unexpected error: %s", err.Error())
				}
			}
			if run.stats.skipped != tc.wantSkipped {
				t.Errorf("skipped does not match. expected: %d actual: %d", tc.wantSkipped, run.stats.skipped)
			}
		})
	}
}

func TestSkipRowsEmptyInput(t *testing.T) {
	run := runSkipRows(t, skipRowsCfg(3), strings.NewReader(""), nil)
	if run.ok != 0 || len(run.errs) != 0 || run.rows != nil {
		t.Fatalf("expected nothing to happen. ok: %d errs: %v rows: %v", run.ok, run.errs, run.rows)
	}
	if run.stats.skipped != 0 {
		t.Fatalf("expected 0 skipped records, got %d", run.stats.skipped)
	}
}

// a header that is not well-formed CSV, or too short for src-cols, is skipped
// without an error.
func TestSkipRowsMalformedHeader(t *testing.T) {
	input := strings.Join([]string{
		"na\"me (first, last)",
		"short",
		"Person1,10",
	}, "\n")

	run := runSkipRows(t, skipRowsCfg(2), strings.NewReader(input), nil)
	if len(run.errs) != 0 {
		t.Fatalf("unexpected errors: %v", run.errs)
	}
	expect := [][]interface{}{{"Person1", int64(10)}}
	if !reflect.DeepEqual(expect, run.rows) {
		t.Fatalf("rows do not match. expected: %v actual: %v", expect, run.rows)
	}
	if run.stats.skipped != 2 {
		t.Fatalf("expected 2 skipped records, got %d", run.stats.skipped)
	}
}

// skipped records keep their place in the line count of later errors.
func TestSkipRowsLineNumbers(t *testing.T) {
	input := strings.Join([]string{
		"name,age",
		"Person1,10",
		"Person2,old",
		"Per\"son3,30",
		"Person4",
	}, "\n")

	with := runSkipRows(t, skipRowsCfg(1), strings.NewReader(input), nil)
	without := runSkipRows(t, skipRowsCfg(0), strings.NewReader(input), nil)

	if len(with.errs) != 3 {
		t.Fatalf("expected 3 errors, got %v", with.errs)
	}
	for i, prefix := range []string{"[line 3] ", "[line 4] ", "[line 5] "} {
		if !strings.HasPrefix(with.errs[i].Error(), prefix) {
			t.Errorf("expected error %d to start with %q: %s", i, prefix, with.errs[i].Error())
		}
	}

	// the run that does not skip reports the header and then the same errors
	if len(without.errs) != 4 {
		t.Fatalf("expected 4 errors, got %v", without.errs)
	}
	if !strings.HasPrefix(without.errs[0].Error(), "[line 1] ") {
		t.Errorf("expected the header to fail: %s", without.errs[0].Error())
	}
	for i := range with.errs {
		if with.errs[i].Error() != without.errs[i+1].Error() {
			t.Errorf("error %d differs. skipping: %s not skipping: %s", i, with.errs[i].Error(), without.errs[i+1].Error())
		}
	}
	if !reflect.DeepEqual(with.rows, without.rows) {
		t.Errorf("rows differ. skipping: %v not skipping: %v", with.rows, without.rows)
	}
}

type skipRowsFailingReader struct {
	data io.Reader
	err  error
}

func (f *skipRowsFailingReader) Read(p []byte) (int, error) {
	n, err := f.data.Read(p)
	if err == io.EOF {
		return n, f.err
	}
	return n, err
}

// a read error that is not a CSV syntax error ends the import, also when it
// hits a record that would have been skipped.
func TestSkipRowsReadError(t *testing.T) {
	errBroken := errors.New("broken pipe")
	r := &skipRowsFailingReader{data: strings.NewReader("name,age\nPerson1,10\n"), err: errBroken}

	run := runSkipRows(t, skipRowsCfg(5), r, nil)
	if len(run.errs) != 1 {
		t.Fatalf("expected 1 error, got %v", run.errs)
	}
	if !errors.Is(run.errs[0], errMalformedRow) || !strings.Contains(run.errs[0].Error(), errBroken.Error()) {
		t.Fatalf("unexpected error: %s", run.errs[0].Error())
	}
	if !strings.HasPrefix(run.errs[0].Error(), "[line 3] ") {
		t.Fatalf("expected the error on line 3: %s", run.errs[0].Error())
	}
	if run.stats.skipped != 2 || run.ok != 0 {
		t.Fatalf("expected 2 skipped and 0 ok. skipped: %d ok: %d", run.stats.skipped, run.ok)
	}
}

// an INSERT failure after the skipped records is reported as before.
func TestSkipRowsInsertError(t *testing.T) {
	errInsert := errors.New("insert failed")
	run := runSkipRows(t, skipRowsCfg(1), strings.NewReader("name,age\nPerson1,10\nPerson2,20\n"), errInsert)
	if len(run.errs) != 2 || run.errs[0] != errInsert || run.errs[1] != errInsert {
		t.Fatalf("expected 2 insert errors, got %v", run.errs)
	}
	if run.ok != 0 || run.stats.skipped != 1 {
		t.Fatalf("expected 0 ok and 1 skipped. ok: %d skipped: %d", run.ok, run.stats.skipped)
	}
}

// doBatchInsert honours cfg.skipRows too and is unchanged when it is zero.
func TestSkipRowsDoBatchInsert(t *testing.T) {
	for _, skip := range []int{0, 1} {
		var rows [][]interface{}
		rm := &mockRelationManager{
			insert: func(tableName string, cols []string, vals []interface{}) (storage.WALBatch, error) {
				rows = append(rows, vals)
				return []*storage.WALEntry{}, nil
			},
			flushWALBatch: func(batch storage.WALBatch) error {
				return nil
			},
		}
		chOk, chErr := doBatchInsert(rm, skipRowsCfg(skip), strings.NewReader("A,1\nB,2\n"))
		for chOk != nil || chErr != nil {
			select {
			case _, ok := <-chOk:
				if !ok {
					chOk = nil
				}
			case err, ok := <-chErr:
				if ok {
					t.Fatalf("unexpected error: %s", err.Error())
				}
				chErr = nil
			}
		}
		expect := [][]interface{}{{"A", int64(1)}, {"B", int64(2)}}[skip:]
		if !reflect.DeepEqual(expect, rows) {
			t.Fatalf("skip %d: rows do not match. expected: %v actual: %v", skip, expect, rows)
		}
	}
}

func TestSkipRowsSummaryLine(t *testing.T) {
	cfg := skipRowsCfg(2)
	got := summaryLine(cfg, &importStats{skipped: 1}, 7, 3)
	expect := "import summary: skipped 1 of 2 header record(s), inserted 7 record(s) into author, 3 error(s)"
	if got != expect {
		t.Fatalf("summary does not match. expected: %q actual: %q", expect, got)
	}
}

func skipRowsSetFlags(t *testing.T, vals map[string]string) {
	t.Helper()
	for name, val := range vals {
		f := flag.Lookup(name)
		if f == nil {
			t.Fatalf("flag -%s is not defined", name)
		}
		old := f.Value.String()
		if err := flag.Set(name, val); err != nil {
			t.Fatalf("setting -%s: %s", name, err.Error())
		}
		name := name
		t.Cleanup(func() { flag.Set(name, old) })
	}
}

func skipRowsSchema() *mockRelationManager {
	return &mockRelationManager{
		fetch: func(tableName string) ([]*storage.Row, []*storage.Field, error) {
			if tableName != "sys_schema" {
				return nil, nil, errors.New("expected fetch for `sys_schema`")
			}
			return []*storage.Row{
					{Vals: []interface{}{"author", "name", int64(storage.TypeVarchar)}},
					{Vals: []interface{}{"author", "age", int64(storage.TypeInt)}},
				},
				[]*storage.Field{
					{Column: "table_name"},
					{Column: "field_name"},
					{Column: "field_type"},
				},
				nil
		},
	}
}

func TestSkipRowsMakeConfig(t *testing.T) {
	base := map[string]string{
		"db":        "testdb",
		"table":     "author",
		"dest-cols": "name,age",
		"src-cols":  "0,1",
	}

	t.Run("default is zero", func(t *testing.T) {
		skipRowsSetFlags(t, base)
		cfg, err := makeConfig(skipRowsSchema())
		if err != nil {
			t.Fatalf("unexpected error: %s", err.Error())
		}
		if cfg.skipRows != 0 {
			t.Fatalf("expected skipRows 0, got %d", cfg.skipRows)
		}
	})

	t.Run("value is taken over", func(t *testing.T) {
		skipRowsSetFlags(t, base)
		skipRowsSetFlags(t, map[string]string{"skip-rows": "2"})
		cfg, err := makeConfig(skipRowsSchema())
		if err != nil {
			t.Fatalf("unexpected error: %s", err.Error())
		}
		expect := skipRowsCfg(2)
		expect.db = "testdb"
		if !reflect.DeepEqual(expect, cfg) {
			t.Fatalf("config does not match. expected: %+v actual: %+v", expect, cfg)
		}
	})

	t.Run("negative value is refused before the database is read", func(t *testing.T) {
		skipRowsSetFlags(t, base)
		skipRowsSetFlags(t, map[string]string{"skip-rows": "-1"})
		rm := &mockRelationManager{
			fetch: func(tableName string) ([]*storage.Row, []*storage.Field, error) {
				t.Errorf("unexpected fetch of %s", tableName)
				return nil, nil, errors.New("unexpected fetch")
			},
		}
		if _, err := makeConfig(rm); err == nil || !strings.Contains(err.Error(), "skip-rows") {
			t.Fatalf("expected a skip-rows error, got %v", err)
		}
	})

	t.Run("not a number is refused by the flag", func(t *testing.T) {
		if err := flag.Set("skip-rows", "two"); err == nil {
			flag.Set("skip-rows", "0")
			t.Fatalf("expected an error")
		}
	})
}
