package main

import (
	"bytes"
	"errors"
	"flag"
	"fmt"
	"os"
	"path/filepath"
	"reflect"
	"strings"
	"testing"

	"github.com/mk6i/mkdb/engine"
	"github.com/mk6i/mkdb/storage"
)

func TestBatchStatements(t *testing.T) {
	tests := []struct {
		input string
		want  []string
	}{
		{"", nil},
		{"  \n\t ", nil},
		{"USE a", []string{"USE a"}},
		{"USE a;", []string{"USE a;"}},
		{"USE a; ", []string{"USE a;"}},
		{"USE a;USE b", []string{"USE a;", "USE b"}},
		{" USE a ;\n SELECT * FROM t ;\n", []string{"USE a ;", "SELECT * FROM t ;"}},
		// semicolons inside quoted literals and identifiers do not split
		{"INSERT INTO t VALUES ('a;b'); SELECT 1", []string{"INSERT INTO t VALUES ('a;b');", "SELECT 1"}},
		{`SELECT "a;b" FROM t; SELECT 2;`, []string{`SELECT "a;b" FROM t;`, "SELECT 2;"}},
		{"SELECT `a;b` FROM t; SELECT 2;", []string{"SELECT `a;b` FROM t;", "SELECT 2;"}},
		{`SELECT 'it\'s; fine'; SELECT 2`, []string{`SELECT 'it\'s; fine';`, "SELECT 2"}},
		// an unterminated literal swallows the rest, like in the console
		{"SELECT 'a; SELECT 2;", []string{"SELECT 'a; SELECT 2;"}},
		// empty statements are passed on (and rejected by the parser)
		{";;", []string{";", ";"}},
	}
	for _, tc := range tests {
		got := batchStatements(tc.input)
		if !reflect.DeepEqual(got, tc.want) {
			t.Errorf("batchStatements(%q) = %q, want %q", tc.input, got, tc.want)
		}
	}
}

func TestBatchStatementsAgreesWithConsole(t *testing.T) {
	// the statements are cut exactly where the interactive console cuts
	// them
	input := "CREATE DATABASE testdb; USE testdb; INSERT INTO t VALUES ('x;y', \"z;\");"
	stmts, rest := splitStatements([]rune(input))
	if rest != len([]rune(input)) {
		t.Fatalf("test input is not fully terminated")
	}
	if got := batchStatements(input); !reflect.DeepEqual(got, stmts) {
		t.Errorf("got %q, want %q", got, stmts)
	}
}

func TestParseArgs(t *testing.T) {
	tests := []struct {
		name    string
		args    []string
		want    options
		wantErr bool
	}{
		{name: "no arguments", args: nil, want: options{}},
		{name: "positional arguments alone are ignored as before", args: []string{"foo"}, want: options{}},
		{name: "statements", args: []string{"-e", "USE a; SELECT 1"}, want: options{stmts: "USE a; SELECT 1", hasStmts: true}},
		{name: "equals form", args: []string{"-e=USE a"}, want: options{stmts: "USE a", hasStmts: true}},
		{name: "double dash form", args: []string{"--e", "USE a"}, want: options{stmts: "USE a", hasStmts: true}},
		{name: "empty statements still select batch mode", args: []string{"-e", ""}, want: options{hasStmts: true}},
		{name: "missing value", args: []string{"-e"}, wantErr: true},
		{name: "unquoted statements", args: []string{"-e", "USE", "a"}, wantErr: true},
		{name: "unknown flag", args: []string{"-x"}, wantErr: true},
	}
	for _, tc := range tests {
		var errOut bytes.Buffer
		got, err := parseArgs(tc.args, &errOut)
		if tc.wantErr {
			if err == nil {
				t.Errorf("%s: expected an error", tc.name)
			} else if errOut.Len() == 0 {
				t.Errorf("%s: no message for error %v", tc.name, err)
			}
			continue
		}
		if err != nil {
			t.Errorf("%s: unexpected error: %v", tc.name, err)
			continue
		}
		if got != tc.want {
			t.Errorf("%s: got %+v, want %+v", tc.name, got, tc.want)
		}
		if errOut.Len() != 0 {
			t.Errorf("%s: unexpected output %q", tc.name, errOut.String())
		}
	}
}

func TestParseArgsHelp(t *testing.T) {
	var errOut bytes.Buffer
	_, err := parseArgs([]string{"-h"}, &errOut)
	if err != flag.ErrHelp {
		t.Fatalf("got error %v, want flag.ErrHelp", err)
	}
	if !strings.Contains(errOut.String(), "-e statements") {
		t.Errorf("usage does not describe -e: %q", errOut.String())
	}
}

// fakeSession records the statements executed and the number of times it was
// closed.
type fakeSession struct {
	t        *testing.T
	executed []string
	failOn   string
	closed   int
	closeErr error
}

func (f *fakeSession) exec(q string) error {
	if f.closed > 0 {
		f.t.Errorf("statement %q executed after the session was closed", q)
	}
	f.executed = append(f.executed, q)
	if q == f.failOn {
		return fmt.Errorf("cannot execute %s", q)
	}
	return nil
}

func (f *fakeSession) close() error {
	f.closed++
	return f.closeErr
}

func TestExecStatementsAllSucceed(t *testing.T) {
	sess := &fakeSession{t: t}
	var errOut bytes.Buffer
	status := execStatements("USE a; SELECT 'x;y' FROM t; SELECT 2", sess.exec, sess.close, &errOut)
	if status != 0 {
		t.Errorf("exit status %d, want 0", status)
	}
	if want := []string{"USE a;", "SELECT 'x;y' FROM t;", "SELECT 2"}; !reflect.DeepEqual(sess.executed, want) {
		t.Errorf("executed %q, want %q", sess.executed, want)
	}
	if sess.closed != 1 {
		t.Errorf("session closed %d times, want 1", sess.closed)
	}
	if errOut.Len() != 0 {
		t.Errorf("unexpected error output %q", errOut.String())
	}
}

func TestExecStatementsStopsAtFirstError(t *testing.T) {
	sess := &fakeSession{t: t, failOn: "SELECT 2;"}
	var errOut bytes.Buffer
	status := execStatements("SELECT 1; SELECT 2; SELECT 3;", sess.exec, sess.close, &errOut)
	if status != 1 {
		t.Errorf("exit status %d, want 1", status)
	}
	if want := []string{"SELECT 1;", "SELECT 2;"}; !reflect.DeepEqual(sess.executed, want) {
		t.Errorf("executed %q, want %q", sess.executed, want)
	}
	if sess.closed != 1 {
		t.Errorf("session closed %d times, want 1", sess.closed)
	}
	if want := "error: cannot execute SELECT 2;\n"; errOut.String() != want {
		t.Errorf("error output %q, want %q", errOut.String(), want)
	}
}

func TestExecStatementsNothingToDo(t *testing.T) {
	for _, input := range []string{"", "  \n "} {
		sess := &fakeSession{t: t}
		var errOut bytes.Buffer
		if status := execStatements(input, sess.exec, sess.close, &errOut); status != 0 {
			t.Errorf("%q: exit status %d, want 0", input, status)
		}
		if len(sess.executed) != 0 {
			t.Errorf("%q: executed %q", input, sess.executed)
		}
		if sess.closed != 1 {
			t.Errorf("%q: session closed %d times, want 1", input, sess.closed)
		}
	}
}

func TestExecStatementsCloseError(t *testing.T) {
	sess := &fakeSession{t: t, closeErr: errors.New("flush failed")}
	var errOut bytes.Buffer
	if status := execStatements("SELECT 1", sess.exec, sess.close, &errOut); status != 1 {
		t.Errorf("exit status %d, want 1", status)
	}
	if want := "error: flush failed\n"; errOut.String() != want {
		t.Errorf("error output %q, want %q", errOut.String(), want)
	}
}

func TestExecStatementsParseError(t *testing.T) {
	// a real session: the empty statement is reported by the parser, not
	// by a panic, and ends the batch
	sess := &engine.Session{}
	var errOut bytes.Buffer
	if status := execStatements("; SHOW DATABASES;", sess.ExecQuery, sess.Close, &errOut); status != 1 {
		t.Errorf("exit status %d, want 1", status)
	}
	if !strings.HasPrefix(errOut.String(), "error: ") {
		t.Errorf("error output %q", errOut.String())
	}
}

func TestExecStatementsRealSession(t *testing.T) {
	const db = "batchtestdb"
	dbDir := filepath.Join("data", db)
	os.RemoveAll(dbDir)
	defer os.RemoveAll(dbDir)

	sess := &engine.Session{}
	var errOut bytes.Buffer
	status := execStatements(
		"CREATE DATABASE "+db+"; USE "+db+";"+
			"CREATE TABLE notes (id int, note varchar(255));"+
			"CREATE TABLE empty (id int);"+
			"SELECT * FROM empty;"+
			"INSERT INTO notes VALUES (1, 'a;b');"+
			"INSERT INTO notes (id) VALUES (2);"+
			"SELECT * FROM notes;"+
			"INSERT INTO nosuchtable VALUES (3, 'fails');"+
			"INSERT INTO notes VALUES (4, 'never executed')",
		sess.ExecQuery, sess.Close, &errOut)
	if status != 1 {
		t.Errorf("exit status %d, want 1", status)
	}
	if !strings.HasPrefix(errOut.String(), "error: ") || strings.Count(errOut.String(), "\n") != 1 {
		t.Errorf("error output %q, want one error line", errOut.String())
	}

	// the session was flushed and closed: the statements before the failing
	// one are on disk, the ones after it were not executed
	rs, err := storage.OpenRelation(db, true)
	if err != nil {
		t.Fatalf("reopening the database: %s", err)
	}
	defer rs.Close()
	rows, _, err := rs.Fetch("notes")
	if err != nil {
		t.Fatalf("reading the table back: %s", err)
	}
	var got []string
	for _, row := range rows {
		got = append(got, fmt.Sprintf("%v", row.Vals))
	}
	if want := []string{"[1 a;b]", "[2 <nil>]"}; !reflect.DeepEqual(got, want) {
		t.Errorf("rows %q, want %q", got, want)
	}
}
