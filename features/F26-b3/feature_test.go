package engine

import (
	"bytes"
	"encoding/binary"
	"errors"
	"os"
	"path/filepath"
	"testing"

	"github.com/mk6i/mkdb/sql"
	"github.com/mk6i/mkdb/storage"
)

func TestParseCheckpoint(t *testing.T) {
	for _, q := range []string{"CHECKPOINT", "checkpoint", "Checkpoint;", "  CHECKPOINT  ;"} {
		stmt, err := parseSQL(q)
		if err != nil {
			t.Fatalf("%q: unexpected error: %s", q, err)
		}
		if _, ok := stmt.(sql.Checkpoint); !ok {
			t.Fatalf("%q: expected sql.Checkpoint, got %T", q, stmt)
		}
	}

	for _, q := range []string{
		"CHECKPOINT now",
		"CHECKPOINT CHECKPOINT",
		"CHECKPOINT;;",
		"CHECKPOINT testdb",
		"CHECKPOINTS",
		"CHECK POINT",
		"'checkpoint'",
		"foo",
		"",
	} {
		if _, err := parseSQL(q); !errors.Is(err, sql.ErrSyntax) {
			t.Errorf("%q: expected a syntax error, got %v", q, err)
		}
	}
}

// checkpoint is not a reserved word: it is still a valid name.
func TestCheckpointIsNotReserved(t *testing.T) {
	stmt, err := parseSQL("SELECT checkpoint FROM checkpoint")
	if err != nil {
		t.Fatalf("unexpected error: %s", err)
	}
	sel, ok := stmt.(sql.Select)
	if !ok {
		t.Fatalf("expected sql.Select, got %T", stmt)
	}
	if got := sel.FromClause[0].(sql.TableName).Name; got != "checkpoint" {
		t.Fatalf("expected table checkpoint, got %v", got)
	}
	stmt, err = parseSQL("CREATE TABLE checkpoint (checkpoint int)")
	if err != nil {
		t.Fatalf("unexpected error: %s", err)
	}
	if ct, ok := stmt.(sql.CreateTable); !ok || ct.Name != "checkpoint" {
		t.Fatalf("expected CREATE TABLE checkpoint, got %#v", stmt)
	}
}

type mockCheckpointer struct {
	calls int
	err   error
}

func (m *mockCheckpointer) Checkpoint() error {
	m.calls++
	return m.err
}

func TestEvaluateCheckpoint(t *testing.T) {
	m := &mockCheckpointer{}
	if err := EvaluateCheckpoint(sql.Checkpoint{}, m); err != nil {
		t.Fatal(err)
	}
	if m.calls != 1 {
		t.Fatalf("expected one flush, got %d", m.calls)
	}

	boom := errors.New("boom")
	m = &mockCheckpointer{err: boom}
	if err := EvaluateCheckpoint(sql.Checkpoint{}, m); err != boom {
		t.Fatalf("expected the error of the flush, got %v", err)
	}
}

func TestCheckpointNeedsDatabase(t *testing.T) {
	defer storage.ClearDataDir()
	s := Session{}
	err := s.ExecQuery("CHECKPOINT")
	if err == nil || err.Error() != "please select a database" {
		t.Fatalf("expected `please select a database`, got %v", err)
	}

	// no panic on a service that was never opened
	var rs *storage.RelationService
	if err := rs.Checkpoint(); err != storage.ErrDBNotSelected {
		t.Fatalf("expected ErrDBNotSelected, got %v", err)
	}
	if err := (&storage.RelationService{}).Checkpoint(); err != storage.ErrDBNotSelected {
		t.Fatalf("expected ErrDBNotSelected, got %v", err)
	}
}

// fileHeader is the head of the table file: last key, page table root, next
// free offset, next LSN.
type fileHeader struct {
	LastKey        uint32
	PageTableRoot  uint64
	NextFreeOffset uint64
	NextLSN        uint64
}

func readTableFile(t *testing.T, db string) (fileHeader, []byte) {
	t.Helper()
	b, err := os.ReadFile(filepath.Join("data", db, "tbl"))
	if err != nil {
		t.Fatal(err)
	}
	var h fileHeader
	if err := binary.Read(bytes.NewReader(b), binary.LittleEndian, &h); err != nil {
		t.Fatal(err)
	}
	return h, b
}

func TestCheckpoint(t *testing.T) {
	defer storage.ClearDataDir()

	s := Session{}
	defer s.Close()

	exec := func(q string) {
		t.Helper()
		if err := s.ExecQuery(q); err != nil {
			t.Fatalf("error running query:\n %s\nError: %s", q, err.Error())
		}
	}

	exec(`CREATE DATABASE testcheckpoint`)
	exec(`USE testcheckpoint`)

	// nothing to flush: succeeds and leaves the file as it is
	_, before := readTableFile(t, "testcheckpoint")
	exec(`CHECKPOINT`)
	_, after := readTableFile(t, "testcheckpoint")
	if !bytes.Equal(before, after) {
		t.Fatal("expected CHECKPOINT without changes to leave the table file as it is")
	}

	exec(`CREATE TABLE t (id int, name varchar(255))`)
	// empty table
	exec(`CHECKPOINT`)
	h0, _ := readTableFile(t, "testcheckpoint")

	exec(`INSERT INTO t VALUES (1, 'first-checkpointed-row')`)
	exec(`INSERT INTO t (id) VALUES (2)`) // name is NULL
	exec(`INSERT INTO t VALUES (3, 'third-checkpointed-row')`)
	walBefore, err := os.ReadFile(filepath.Join("data", "testcheckpoint", "wal"))
	if err != nil {
		t.Fatal(err)
	}

	exec(`CHECKPOINT`)

	// the pages and the header are in the file when the statement returns
	h1, content := readTableFile(t, "testcheckpoint")
	if h1.NextLSN != h0.NextLSN+3 {
		t.Errorf("expected the header on disk to carry the LSN after 3 inserts (%d), got %d", h0.NextLSN+3, h1.NextLSN)
	}
	if h1.LastKey != h0.LastKey+3 {
		t.Errorf("expected the header on disk to carry the last key after 3 inserts (%d), got %d", h0.LastKey+3, h1.LastKey)
	}
	for _, exp := range []string{"first-checkpointed-row", "third-checkpointed-row"} {
		if !bytes.Contains(content, []byte(exp)) {
			t.Errorf("expected the table file to contain %q after CHECKPOINT", exp)
		}
	}
	if int(h1.NextFreeOffset) != len(content) {
		t.Errorf("expected a file of %d bytes, got %d", h1.NextFreeOffset, len(content))
	}

	// the log is left alone
	walAfter, err := os.ReadFile(filepath.Join("data", "testcheckpoint", "wal"))
	if err != nil {
		t.Fatal(err)
	}
	if !bytes.Equal(walBefore, walAfter) {
		t.Error("expected CHECKPOINT to leave the write-ahead log as it is")
	}

	// a second one in a row is a no-op
	exec(`CHECKPOINT`)
	_, again := readTableFile(t, "testcheckpoint")
	if !bytes.Equal(content, again) {
		t.Error("expected a repeated CHECKPOINT to leave the table file as it is")
	}

	// the data is still served
	stmt, err := parseSQL(`SELECT id, name FROM t`)
	if err != nil {
		t.Fatal(err)
	}
	rows, _, err := EvaluateSelect(stmt.(sql.Select), s.RelationService)
	if err != nil {
		t.Fatal(err)
	}
	if len(rows) != 3 || rows[0].Vals[1] != "first-checkpointed-row" || rows[1].Vals[1] != nil {
		t.Errorf("unexpected table content after CHECKPOINT: %v", rows)
	}

	// and a restart (recovery replays the log over the flushed pages) sees it too
	if err := s.Close(); err != nil {
		t.Fatal(err)
	}
	s = Session{}
	if err := storage.InitStorage(); err != nil {
		t.Fatal(err)
	}
	exec(`USE testcheckpoint`)
	rows, _, err = EvaluateSelect(stmt.(sql.Select), s.RelationService)
	if err != nil {
		t.Fatal(err)
	}
	if len(rows) != 3 || rows[2].Vals[1] != "third-checkpointed-row" {
		t.Errorf("unexpected table content after restart: %v", rows)
	}
}

// the error of the flush is the error of the statement
func TestCheckpointReturnsFlushError(t *testing.T) {
	defer storage.ClearDataDir()
	s := Session{}
	for _, q := range []string{`CREATE DATABASE testcheckpointerr`, `USE testcheckpointerr`} {
		if err := s.ExecQuery(q); err != nil {
			t.Fatal(err)
		}
	}
	// closes the table file: the flush cannot write any more
	if err := s.Close(); err != nil {
		t.Fatal(err)
	}
	if err := s.RelationService.Checkpoint(); err == nil {
		t.Fatal("expected an error from Checkpoint on a closed database")
	}
	if err := s.ExecQuery(`CHECKPOINT`); err == nil {
		t.Fatal("expected an error from CHECKPOINT on a closed database")
	}
}
