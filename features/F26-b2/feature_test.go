package storage

import (
	"errors"
	"os"
	"path/filepath"
	"testing"
	"time"
)

func TestFlushIntervalFromEnv(t *testing.T) {
	t.Run("unset: default", func(t *testing.T) {
		// register the restore of the variable, then remove it
		t.Setenv(PageFlushIntervalEnv, "")
		os.Unsetenv(PageFlushIntervalEnv)
		got, err := flushIntervalFromEnv()
		if err != nil {
			t.Fatal(err)
		}
		if got != 100*time.Millisecond {
			t.Fatalf("expected the default of 100ms, got %s", got)
		}
	})

	valid := []struct {
		val string
		exp time.Duration
	}{
		{"", 100 * time.Millisecond},
		{"  ", 100 * time.Millisecond},
		{"100ms", 100 * time.Millisecond},
		{"250ms", 250 * time.Millisecond},
		{" 2s ", 2 * time.Second},
		{"1m30s", 90 * time.Second},
		{"1ns", time.Nanosecond},
	}
	for _, c := range valid {
		t.Run("valid "+c.val, func(t *testing.T) {
			t.Setenv(PageFlushIntervalEnv, c.val)
			got, err := flushIntervalFromEnv()
			if err != nil {
				t.Fatalf("unexpected error: %s", err)
			}
			if got != c.exp {
				t.Fatalf("expected %s, got %s", c.exp, got)
			}
		})
	}

	for _, val := range []string{"0", "0s", "0ms", "-1ms", "-5s", "abc", "100", "ms", "1.5", "10 ms", "9999999h"} {
		t.Run("invalid "+val, func(t *testing.T) {
			t.Setenv(PageFlushIntervalEnv, val)
			got, err := flushIntervalFromEnv()
			if !errors.Is(err, ErrInvalidFlushInterval) {
				t.Fatalf("expected ErrInvalidFlushInterval, got %v", err)
			}
			if got != 0 {
				t.Fatalf("expected no interval next to an error, got %s", got)
			}
		})
	}
}

func TestNewFileStoreIntervalValidates(t *testing.T) {
	dir := t.TempDir()

	for _, d := range []time.Duration{0, -1, -time.Second} {
		path := filepath.Join(dir, "refused")
		fs, err := newFileStoreInterval(path, true, d)
		if !errors.Is(err, ErrInvalidFlushInterval) {
			t.Fatalf("interval %s: expected ErrInvalidFlushInterval, got %v", d, err)
		}
		if fs != nil {
			t.Fatalf("interval %s: expected no file store next to an error", d)
		}
		if _, err := os.Stat(path); !os.IsNotExist(err) {
			t.Fatalf("interval %s: the refused open must not create the file (stat: %v)", d, err)
		}
	}

	// without a flush timer the interval is not used and not checked
	fs, err := newFileStoreInterval(filepath.Join(dir, "notimer"), false, 0)
	if err != nil {
		t.Fatal(err)
	}
	if fs.ticker != nil || fs.tickerDone != nil {
		t.Fatal("expected no timer without autoFlushCache")
	}
	fs.nextFreeOffset = pageSize
	if err := fs.close(); err != nil {
		t.Fatal(err)
	}
}

// dirtyPageFlushed reports whether the timer has written the page.
func dirtyPageFlushed(fs *fileStore, node *btreeNode) bool {
	fs.lockShared()
	defer fs.unlockShared()
	return !node.isDirty()
}

func newStoreWithDirtyPage(t *testing.T, interval time.Duration) (*fileStore, *btreeNode) {
	t.Helper()
	fs, err := newFileStoreInterval(filepath.Join(t.TempDir(), "tbl"), true, interval)
	if err != nil {
		t.Fatal(err)
	}
	fs.lockShared()
	defer fs.unlockShared()
	fs.nextFreeOffset = pageSize
	node := &btreeNode{isLeaf: true}
	node.markDirty(0)
	if err := fs.append(node); err != nil {
		t.Fatal(err)
	}
	return fs, node
}

func TestFlushIntervalShort(t *testing.T) {
	fs, node := newStoreWithDirtyPage(t, 5*time.Millisecond)
	defer fs.close()

	deadline := time.Now().Add(5 * time.Second)
	for !dirtyPageFlushed(fs, node) {
		if time.Now().After(deadline) {
			t.Fatal("the page was not flushed by a 5ms timer within 5s")
		}
		time.Sleep(time.Millisecond)
	}
}

func TestFlushIntervalLong(t *testing.T) {
	fs, node := newStoreWithDirtyPage(t, time.Hour)

	// well past the default interval
	time.Sleep(350 * time.Millisecond)
	if dirtyPageFlushed(fs, node) {
		t.Fatal("the page was flushed although the interval is an hour")
	}

	// close still stops the timer and flushes
	if err := fs.close(); err != nil {
		t.Fatal(err)
	}
	if node.isDirty() {
		t.Fatal("expected close to flush the page")
	}
	info, err := os.Stat(fs.file.Name())
	if err != nil {
		t.Fatal(err)
	}
	if info.Size() != 2*pageSize {
		t.Fatalf("expected the header page and the flushed page on disk, got %d bytes", info.Size())
	}
}

func TestNewFileStoreReadsEnv(t *testing.T) {
	t.Run("valid", func(t *testing.T) {
		t.Setenv(PageFlushIntervalEnv, "1h")
		fs, err := newFileStore(filepath.Join(t.TempDir(), "tbl"), true)
		if err != nil {
			t.Fatal(err)
		}
		fs.nextFreeOffset = pageSize
		if err := fs.close(); err != nil {
			t.Fatal(err)
		}
	})
	t.Run("invalid with timer", func(t *testing.T) {
		t.Setenv(PageFlushIntervalEnv, "0s")
		path := filepath.Join(t.TempDir(), "tbl")
		if _, err := newFileStore(path, true); !errors.Is(err, ErrInvalidFlushInterval) {
			t.Fatalf("expected ErrInvalidFlushInterval, got %v", err)
		}
		if _, err := os.Stat(path); !os.IsNotExist(err) {
			t.Fatalf("the refused open must not create the file (stat: %v)", err)
		}
	})
	t.Run("invalid without timer is not read", func(t *testing.T) {
		t.Setenv(PageFlushIntervalEnv, "0s")
		fs, err := newFileStore(filepath.Join(t.TempDir(), "tbl"), false)
		if err != nil {
			t.Fatal(err)
		}
		fs.nextFreeOffset = pageSize
		if err := fs.close(); err != nil {
			t.Fatal(err)
		}
	})
}

func TestCreateAndOpenWithFlushIntervalEnv(t *testing.T) {
	defer ClearDataDir()

	// a refused interval: nothing is created
	t.Setenv(PageFlushIntervalEnv, "-100ms")
	if err := CreateDB("flushintervaldb"); !errors.Is(err, ErrInvalidFlushInterval) {
		t.Fatalf("expected ErrInvalidFlushInterval, got %v", err)
	}
	if _, err := os.Stat(filepath.Join(dataPath, "flushintervaldb")); !os.IsNotExist(err) {
		t.Fatalf("the refused CREATE DATABASE must not leave a directory behind (stat: %v)", err)
	}
	if rows, _, err := ShowDB(); err != nil {
		t.Fatal(err)
	} else if len(rows) != 0 {
		t.Fatalf("expected no database, got %v", rows)
	}

	// a valid one: the database is created and usable
	t.Setenv(PageFlushIntervalEnv, "20ms")
	if err := CreateDB("flushintervaldb"); err != nil {
		t.Fatal(err)
	}
	if err := CreateDB("flushintervaldb"); err != ErrDBExists {
		t.Fatalf("expected ErrDBExists, got %v", err)
	}

	// opening an existing database with a refused interval fails, and the
	// database is untouched
	t.Setenv(PageFlushIntervalEnv, "never")
	if rs, err := OpenRelation("flushintervaldb", true); !errors.Is(err, ErrInvalidFlushInterval) {
		t.Fatalf("expected ErrInvalidFlushInterval, got %v (%v)", err, rs)
	}
	// a missing database is still reported as such
	if _, err := OpenRelation("nosuchdb", true); err != ErrDBNotExist {
		t.Fatalf("expected ErrDBNotExist, got %v", err)
	}
	// recovery does not start a timer and does not read the variable
	if err := InitStorage(); err != nil {
		t.Fatalf("unexpected error from InitStorage: %s", err)
	}

	t.Setenv(PageFlushIntervalEnv, "20ms")
	rs, err := OpenRelation("flushintervaldb", true)
	if err != nil {
		t.Fatal(err)
	}
	rel := &Relation{Fields: []FieldDef{{Name: "id", DataType: TypeInt}}}
	if err := rs.CreateTable(rel, "t"); err != nil {
		t.Fatal(err)
	}
	rs.StartTxn()
	batch, err := rs.Insert("t", nil, []interface{}{int64(1)})
	if err == nil {
		err = rs.FlushWALBatch(batch)
	}
	rs.EndTxn()
	if err != nil {
		t.Fatal(err)
	}

	// the 20ms timer writes the insert to the table file
	deadline := time.Now().Add(5 * time.Second)
	for {
		rs.StartTxn()
		dirty := 0
		for _, v := range rs.fs.cache.cache {
			if v.Value.(*cacheEntry).val.isDirty() {
				dirty++
			}
		}
		rs.EndTxn()
		if dirty == 0 {
			break
		}
		if time.Now().After(deadline) {
			t.Fatal("dirty pages were not flushed by a 20ms timer within 5s")
		}
		time.Sleep(time.Millisecond)
	}

	if err := rs.Close(); err != nil {
		t.Fatal(err)
	}

	// default again: same data
	t.Setenv(PageFlushIntervalEnv, "")
	rs, err = OpenRelation("flushintervaldb", true)
	if err != nil {
		t.Fatal(err)
	}
	defer rs.Close()
	rs.StartTxn()
	rows, _, err := rs.Fetch("t")
	rs.EndTxn()
	if err != nil {
		t.Fatal(err)
	}
	if len(rows) != 1 || rows[0].Vals[0] != int64(1) {
		t.Fatalf("expected the inserted row, got %v", rows)
	}
}
