package engine

import (
	"errors"
	"fmt"
	"reflect"
	"testing"

	"github.com/mk6i/mkdb/sql"
	"github.com/mk6i/mkdb/storage"
)

// distinctFixture returns a relation manager that serves a fresh copy of the
// given rows for table tbl1 (col1 int, col2 varchar).
func distinctFixture(vals [][]interface{}) *mockRelationManager {
	return &mockRelationManager{
		fetch: func(tableName string) ([]*storage.Row, []*storage.Field, error) {
			if tableName != "tbl1" {
				return nil, nil, storage.ErrTableNotExist
			}
			fields := []*storage.Field{
				{Column: "col1"},
				{Column: "col2"},
			}
			var rows []*storage.Row
			for i, v := range vals {
				rows = append(rows, &storage.Row{
					RowID: uint32(i),
					Vals:  append([]interface{}{}, v...),
				})
			}
			return rows, fields, nil
		},
	}
}

func distinctVals(rows []*storage.Row) [][]interface{} {
	ans := [][]interface{}{}
	for _, row := range rows {
		ans = append(ans, row.Vals)
	}
	return ans
}

func TestSelectDistinctParse(t *testing.T) {
	stmt, err := parseSQL(`SELECT DISTINCT col1, col2 FROM tbl1`)
	if err != nil {
		t.Fatalf("unexpected parse error: %v", err)
	}
	sel, ok := stmt.(sql.Select)
	if !ok {
		t.Fatalf("expected a select statement, got %T", stmt)
	}
	if !sel.Distinct {
		t.Errorf("expected Distinct to be set")
	}
	expectList := sql.SelectList{
		{ValueExpressionPrimary: sql.ColumnReference{ColumnName: "col1"}},
		{ValueExpressionPrimary: sql.ColumnReference{ColumnName: "col2"}},
	}
	if !reflect.DeepEqual(expectList, sel.SelectList) {
		t.Errorf("select list mismatch. expected: %v actual: %v", expectList, sel.SelectList)
	}

	// the quantifier is case-insensitive like every other keyword
	stmt, err = parseSQL(`select distinct * from tbl1;`)
	if err != nil {
		t.Fatalf("unexpected parse error: %v", err)
	}
	if !stmt.(sql.Select).Distinct {
		t.Errorf("expected Distinct to be set")
	}

	// a plain SELECT is parsed exactly as before
	stmt, err = parseSQL(`SELECT col1, col2 FROM tbl1`)
	if err != nil {
		t.Fatalf("unexpected parse error: %v", err)
	}
	if stmt.(sql.Select).Distinct {
		t.Errorf("expected Distinct to be unset")
	}
}

func TestSelectDistinctParseErrors(t *testing.T) {
	tc := []struct {
		query     string
		expectErr error
	}{
		// DISTINCT is not a column name
		{query: `SELECT DISTINCT FROM tbl1`, expectErr: sql.ErrUnexpectedToken},
		{query: `SELECT DISTINCT`, expectErr: sql.ErrUnexpectedToken},
		// the quantifier comes first and only once
		{query: `SELECT col1, DISTINCT col2 FROM tbl1`, expectErr: sql.ErrUnexpectedToken},
		{query: `SELECT DISTINCT DISTINCT col1 FROM tbl1`, expectErr: sql.ErrUnexpectedToken},
		// group by validation still applies
		{query: `SELECT DISTINCT col1, count(*) FROM tbl1`, expectErr: sql.ErrInvalidGroupByColumn},
	}
	for _, test := range tc {
		t.Run(test.query, func(t *testing.T) {
			_, err := parseSQL(test.query)
			if !errors.Is(err, test.expectErr) {
				t.Errorf("expected error `%v`, got `%v`", test.expectErr, err)
			}
		})
	}
}

func TestSelectDistinct(t *testing.T) {
	given := [][]interface{}{
		{int64(2), "b"},
		{int64(1), "a"},
		{int64(2), "b"},
		{nil, "a"},
		{int64(1), "b"},
		{nil, "a"},
		{nil, nil},
		{int64(1), "a"},
		{nil, nil},
	}

	tc := []struct {
		name       string
		query      string
		given      [][]interface{}
		expectRows [][]interface{}
		expectCols []string
	}{
		{
			name:  "duplicates are removed and the first occurrence is kept",
			query: `SELECT DISTINCT col1, col2 FROM tbl1`,
			given: given,
			expectRows: [][]interface{}{
				{int64(2), "b"},
				{int64(1), "a"},
				{nil, "a"},
				{int64(1), "b"},
				{nil, nil},
			},
			expectCols: []string{"col1", "col2"},
		},
		{
			name:  "without DISTINCT duplicates stay",
			query: `SELECT col1, col2 FROM tbl1`,
			given: given,
			expectRows: [][]interface{}{
				{int64(2), "b"},
				{int64(1), "a"},
				{int64(2), "b"},
				{nil, "a"},
				{int64(1), "b"},
				{nil, "a"},
				{nil, nil},
				{int64(1), "a"},
				{nil, nil},
			},
			expectCols: []string{"col1", "col2"},
		},
		{
			name:  "only the selected columns are compared and NULLs are duplicates of each other",
			query: `SELECT DISTINCT col1 FROM tbl1`,
			given: given,
			expectRows: [][]interface{}{
				{int64(2)},
				{int64(1)},
				{nil},
			},
			expectCols: []string{"col1"},
		},
		{
			name:  "SELECT DISTINCT * compares every column",
			query: `SELECT DISTINCT * FROM tbl1`,
			given: given,
			expectRows: [][]interface{}{
				{int64(2), "b"},
				{int64(1), "a"},
				{nil, "a"},
				{int64(1), "b"},
				{nil, nil},
			},
			expectCols: []string{"col1", "col2"},
		},
		{
			name:  "DISTINCT is applied after WHERE and before ORDER BY, OFFSET and LIMIT",
			query: `SELECT DISTINCT col2, col1 FROM tbl1 WHERE col2 = 'a' OR col2 = 'b' ORDER BY col2 DESC, col1 ASC LIMIT 2 OFFSET 1`,
			given: given,
			// distinct rows in sorted order: (b,1) (b,2) (a,NULL) (a,1)
			expectRows: [][]interface{}{
				{"b", int64(2)},
				{"a", nil},
			},
			expectCols: []string{"col2", "col1"},
		},
		{
			name:  "LIMIT counts distinct rows",
			query: `SELECT DISTINCT col1 FROM tbl1 LIMIT 2`,
			given: given,
			expectRows: [][]interface{}{
				{int64(2)},
				{int64(1)},
			},
			expectCols: []string{"col1"},
		},
		{
			name:  "DISTINCT is applied to the aggregated rows, not to the rows that are counted",
			query: `SELECT DISTINCT count(*) FROM tbl1`,
			given: [][]interface{}{
				{int64(1), "a"},
				{int64(1), "a"},
				{int64(1), "a"},
			},
			expectRows: [][]interface{}{
				{int64(3)},
			},
			expectCols: []string{"count(*)"},
		},
		{
			name:  "DISTINCT with GROUP BY keeps one row per group",
			query: `SELECT DISTINCT col2, count(*) FROM tbl1 GROUP BY col2`,
			given: [][]interface{}{
				{int64(1), "a"},
				{int64(2), "b"},
				{int64(3), "a"},
			},
			expectRows: [][]interface{}{
				{"a", int64(2)},
				{"b", int64(1)},
			},
			expectCols: []string{"col2", "count(*)"},
		},
		{
			name:  "values of different types are not duplicates of each other",
			query: `SELECT DISTINCT col2 FROM tbl1`,
			given: [][]interface{}{
				{int64(1), "1"},
				{int64(1), int64(1)},
				{int64(1), "true"},
				{int64(1), true},
				{int64(1), "<nil>"},
				{int64(1), nil},
				{int64(1), "1"},
			},
			expectRows: [][]interface{}{
				{"1"},
				{int64(1)},
				{"true"},
				{true},
				{"<nil>"},
				{nil},
			},
			expectCols: []string{"col2"},
		},
		{
			name:  "separators and quotes inside of strings do not merge rows",
			query: `SELECT DISTINCT col2, col1 FROM tbl1`,
			given: [][]interface{}{
				{"b", "a,"},
				{",b", "a"},
				{"b\"", "a"},
				{"b", "a\""},
				{"b", "a,"},
			},
			expectRows: [][]interface{}{
				{"a,", "b"},
				{"a", ",b"},
				{"a", "b\""},
				{"a\"", "b"},
			},
			expectCols: []string{"col2", "col1"},
		},
		{
			name:       "empty table",
			query:      `SELECT DISTINCT col1, col2 FROM tbl1`,
			given:      nil,
			expectRows: [][]interface{}{},
			expectCols: []string{"col1", "col2"},
		},
		{
			name:       "a single row",
			query:      `SELECT DISTINCT col1 FROM tbl1`,
			given:      [][]interface{}{{nil, "a"}},
			expectRows: [][]interface{}{{nil}},
			expectCols: []string{"col1"},
		},
		{
			name:       "no row survives the WHERE clause",
			query:      `SELECT DISTINCT col1 FROM tbl1 WHERE col2 = 'nope'`,
			given:      given,
			expectRows: [][]interface{}{},
			expectCols: []string{"col1"},
		},
		{
			name:       "implicit aggregation of an empty table still yields one row",
			query:      `SELECT DISTINCT count(*) FROM tbl1`,
			given:      nil,
			expectRows: [][]interface{}{{int64(0)}},
			expectCols: []string{"count(*)"},
		},
	}

	for _, test := range tc {
		t.Run(test.name, func(t *testing.T) {
			stmt, err := parseSQL(test.query)
			if err != nil {
				t.Fatalf("unexpected parse error: %v", err)
			}
			rows, fields, err := EvaluateSelect(stmt.(sql.Select), distinctFixture(test.given))
			if err != nil {
				t.Fatalf("unexpected error: %v", err)
			}
			if actual := distinctVals(rows); !reflect.DeepEqual(test.expectRows, actual) {
				t.Errorf("rows do not match. expected: %v actual: %v", test.expectRows, actual)
			}
			var cols []string
			for _, fd := range fields {
				cols = append(cols, fmt.Sprint(fd.Column))
			}
			if !reflect.DeepEqual(test.expectCols, cols) {
				t.Errorf("columns do not match. expected: %v actual: %v", test.expectCols, cols)
			}
		})
	}
}

func TestSelectDistinctWithJoin(t *testing.T) {
	rm := &mockRelationManager{
		fetch: func(tableName string) ([]*storage.Row, []*storage.Field, error) {
			switch tableName {
			case "orders":
				return []*storage.Row{
						{Vals: []interface{}{int64(1), int64(10)}},
						{Vals: []interface{}{int64(2), int64(10)}},
						{Vals: []interface{}{int64(3), int64(20)}},
						{Vals: []interface{}{int64(4), int64(30)}},
					}, []*storage.Field{
						{Column: "id"},
						{Column: "customer_id"},
					}, nil
			case "customers":
				return []*storage.Row{
						{Vals: []interface{}{int64(10), "ann"}},
						{Vals: []interface{}{int64(20), "bob"}},
					}, []*storage.Field{
						{Column: "id"},
						{Column: "name"},
					}, nil
			}
			return nil, nil, storage.ErrTableNotExist
		},
	}

	stmt, err := parseSQL(`SELECT DISTINCT c.name FROM orders o LEFT JOIN customers c ON o.customer_id = c.id`)
	if err != nil {
		t.Fatalf("unexpected parse error: %v", err)
	}
	rows, _, err := EvaluateSelect(stmt.(sql.Select), rm)
	if err != nil {
		t.Fatalf("unexpected error: %v", err)
	}
	expect := [][]interface{}{{"ann"}, {"bob"}, {nil}}
	if actual := distinctVals(rows); !reflect.DeepEqual(expect, actual) {
		t.Errorf("rows do not match. expected: %v actual: %v", expect, actual)
	}
}

func TestSelectDistinctErrors(t *testing.T) {
	// errors of the other clauses are reported as before
	tc := []struct {
		query     string
		expectErr error
	}{
		{query: `SELECT DISTINCT col1 FROM nope`, expectErr: storage.ErrTableNotExist},
		{query: `SELECT DISTINCT nope FROM tbl1`, expectErr: storage.ErrFieldNotFound},
		{query: `SELECT DISTINCT col1 FROM tbl1 ORDER BY col2`, expectErr: ErrSortFieldNotFound},
	}
	for _, test := range tc {
		t.Run(test.query, func(t *testing.T) {
			stmt, err := parseSQL(test.query)
			if err != nil {
				t.Fatalf("unexpected parse error: %v", err)
			}
			rows, fields, err := EvaluateSelect(stmt.(sql.Select), distinctFixture([][]interface{}{{int64(1), "a"}, {int64(1), "a"}}))
			if !errors.Is(err, test.expectErr) {
				t.Errorf("expected error `%v`, got `%v`", test.expectErr, err)
			}
			if rows != nil || fields != nil {
				t.Errorf("expected no result with an error, got %v %v", rows, fields)
			}
		})
	}
}

func TestDistinctRowsKeepsInput(t *testing.T) {
	r1 := &storage.Row{Vals: []interface{}{int64(1)}}
	r2 := &storage.Row{Vals: []interface{}{int64(1)}}
	r3 := &storage.Row{Vals: []interface{}{int64(2)}}
	in := []*storage.Row{r1, r2, r3}

	out := distinctRows(in)

	if len(out) != 2 || out[0] != r1 || out[1] != r3 {
		t.Errorf("expected the first occurrences [r1 r3], got %v", out)
	}
	if len(in) != 3 || in[0] != r1 || in[1] != r2 || in[2] != r3 {
		t.Errorf("input slice was modified: %v", in)
	}
	if got := distinctRows(nil); len(got) != 0 {
		t.Errorf("expected no rows, got %v", got)
	}
}

func TestSelectDistinctSession(t *testing.T) {
	defer storage.ClearDataDir()

	s := Session{}
	defer s.Close()

	queries := []string{
		`CREATE DATABASE distinctdb`,
		`USE distinctdb`,
		`CREATE TABLE pets (owner varchar(32), kind varchar(32), age int)`,
		`SELECT DISTINCT owner FROM pets`,
		`INSERT INTO pets VALUES ('ann', 'cat', 3), ('bob', 'dog', 5), ('ann', 'cat', 3), ('ann', 'dog', 3)`,
		`INSERT INTO pets (owner) VALUES ('cy'), ('cy')`,
		`SELECT DISTINCT owner, kind FROM pets ORDER BY owner DESC LIMIT 3`,
		`SELECT DISTINCT * FROM pets`,
		`SELECT DISTINCT age FROM pets WHERE owner = 'ann'`,
	}
	for _, q := range queries {
		if err := s.ExecQuery(q); err != nil {
			t.Fatalf("query `%s` failed: %v", q, err)
		}
	}
}
