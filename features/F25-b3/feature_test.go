package main

import (
	"bytes"
	"errors"
	"io"
	"reflect"
	"testing"
	"time"
)

// newTimingTestTerminal returns a terminal that reads the given key presses
// and discards its echo (a single buffer for both directions would feed the
// echo back in as input).
func newTimingTestTerminal(input string) *Terminal {
	return NewTerminal(struct {
		io.Reader
		io.Writer
	}{bytes.NewBufferString(input), io.Discard}, "")
}

// fakeClock advances by step every time it is read.
type fakeClock struct {
	cur   time.Time
	step  time.Duration
	reads int
}

func (f *fakeClock) now() time.Time {
	f.reads++
	f.cur = f.cur.Add(f.step)
	return f.cur
}

func TestConsoleCommand(t *testing.T) {
	tests := []struct {
		line string
		cmd  string
		ok   bool
	}{
		{"timing", "timing", true},
		{"TIMING", "timing", true},
		{"Timing", "timing", true},
		{"  timing  ", "timing", true},
		{"timing;", "timing", true},
		{" timing ; ", "timing", true},
		{"", "", false},
		{" ", "", false},
		{";", "", false},
		{"timing;;", "", false},
		{"timing on", "", false},
		{"timing; timing", "", false},
		{"timings", "", false},
		{"SELECT timing", "", false},
		{"SELECT 'a timing", "", false},
		{"SELECT 1; timing", "", false},
	}
	for _, tc := range tests {
		cmd, ok := consoleCommand([]rune(tc.line))
		if cmd != tc.cmd || ok != tc.ok {
			t.Errorf("consoleCommand(%q) = %q, %v, want %q, %v", tc.line, cmd, ok, tc.cmd, tc.ok)
		}
	}
}

func TestReadLineTimingCommand(t *testing.T) {
	for _, cmd := range []string{"timing", "TIMING", " timing ", "timing;"} {
		term := newTimingTestTerminal("USE a;\r" + cmd + "\rUSE b;\r")
		want := [][]string{{"USE a;"}, {timingCommand}, {"USE b;"}}
		for _, w := range want {
			line, err := term.ReadLine()
			if err != nil {
				t.Fatalf("%q: unexpected error: %s", cmd, err)
			}
			if !reflect.DeepEqual(line, w) {
				t.Errorf("%q: got %q, want %q", cmd, line, w)
			}
		}
	}
}

func TestReadLineTimingInsideStatement(t *testing.T) {
	tests := []struct {
		name  string
		input string
		want  []string
	}{
		{
			name:  "continuation line of an unfinished statement",
			input: "SELECT a FROM t WHERE b =\rtiming\r;\r",
			want:  []string{"SELECT a FROM t WHERE b = timing ;"},
		},
		{
			name:  "inside an unfinished string literal",
			input: "SELECT 'a\rtiming\r';\r",
			want:  []string{"SELECT 'a timing ';"},
		},
		{
			name:  "after a complete statement on the same line",
			input: "USE a; timing\r;\r",
			want:  []string{"USE a;", "timing ;"},
		},
		{
			name:  "before a statement on the same line",
			input: "timing; USE a;\r",
			want:  []string{"timing;", "USE a;"},
		},
	}
	for _, tc := range tests {
		term := newTimingTestTerminal(tc.input)
		line, err := term.ReadLine()
		if err != nil {
			t.Errorf("%s: unexpected error: %v", tc.name, err)
			continue
		}
		if !reflect.DeepEqual(line, tc.want) {
			t.Errorf("%s: got %q, want %q", tc.name, line, tc.want)
		}
		// what is returned is a statement, not the command
		for _, l := range line {
			if l == timingCommand {
				t.Errorf("%s: command returned from inside a statement", tc.name)
			}
		}
	}
}

func TestConsoleTimingOffByDefault(t *testing.T) {
	var out bytes.Buffer
	clock := &fakeClock{step: time.Millisecond}
	var executed []string
	c := &console{
		exec: func(q string) error { executed = append(executed, q); return nil },
		out:  &out,
		now:  clock.now,
	}

	c.run("SELECT 1;")
	if out.Len() != 0 {
		t.Errorf("unexpected output %q", out.String())
	}
	if clock.reads != 0 {
		t.Errorf("clock read %d times with timing off", clock.reads)
	}
	if want := []string{"SELECT 1;"}; !reflect.DeepEqual(executed, want) {
		t.Errorf("executed %q, want %q", executed, want)
	}

	// errors are printed as before
	c.exec = func(string) error { return errors.New("boom") }
	c.run("SELECT 2;")
	if want := "error: boom\n\r"; out.String() != want {
		t.Errorf("output %q, want %q", out.String(), want)
	}
}

func TestConsoleTimingToggle(t *testing.T) {
	var out bytes.Buffer
	clock := &fakeClock{step: 1500 * time.Microsecond}
	var executed []string
	c := &console{
		exec: func(q string) error { executed = append(executed, q); return nil },
		out:  &out,
		now:  clock.now,
	}

	c.run(timingCommand)
	if want := "timing is on\n\r"; out.String() != want {
		t.Errorf("output %q, want %q", out.String(), want)
	}
	if len(executed) != 0 {
		t.Errorf("the command was executed as a statement: %q", executed)
	}

	out.Reset()
	c.run("SELECT 1;")
	c.run("SELECT 2;")
	if want := "Time: 1.500 ms\n\rTime: 1.500 ms\n\r"; out.String() != want {
		t.Errorf("output %q, want %q", out.String(), want)
	}

	out.Reset()
	c.run(timingCommand)
	if want := "timing is off\n\r"; out.String() != want {
		t.Errorf("output %q, want %q", out.String(), want)
	}

	out.Reset()
	c.run("SELECT 3;")
	if out.Len() != 0 {
		t.Errorf("unexpected output %q with timing off", out.String())
	}
	if want := []string{"SELECT 1;", "SELECT 2;", "SELECT 3;"}; !reflect.DeepEqual(executed, want) {
		t.Errorf("executed %q, want %q", executed, want)
	}
}

func TestConsoleTimingAfterError(t *testing.T) {
	var out bytes.Buffer
	clock := &fakeClock{step: 250 * time.Microsecond}
	c := &console{
		exec:   func(string) error { return errors.New("table does not exist") },
		out:    &out,
		now:    clock.now,
		timing: true,
	}
	c.run("SELECT * FROM nosuch;")
	if want := "error: table does not exist\n\rTime: 0.250 ms\n\r"; out.String() != want {
		t.Errorf("output %q, want %q", out.String(), want)
	}
}

func TestConsoleTimingMeasuresStatement(t *testing.T) {
	// the clock is read right before and right after the statement
	var out bytes.Buffer
	cur := time.Unix(1000, 0)
	c := &console{
		exec:   func(string) error { cur = cur.Add(2 * time.Second); return nil },
		out:    &out,
		now:    func() time.Time { return cur },
		timing: true,
	}
	c.run("SELECT 1;")
	if want := "Time: 2000.000 ms\n\r"; out.String() != want {
		t.Errorf("output %q, want %q", out.String(), want)
	}
}

func TestReadEvalLoopTiming(t *testing.T) {
	term := newTimingTestTerminal("USE a;\rtiming\rUSE b; USE c;\rTIMING;\rUSE d;\r")
	var out bytes.Buffer
	clock := &fakeClock{step: time.Millisecond}
	var executed []string
	c := &console{
		exec: func(q string) error { executed = append(executed, q); return nil },
		out:  &out,
		now:  clock.now,
	}
	if err := readEvalLoop(term, c); err != nil {
		t.Fatalf("unexpected error: %s", err)
	}
	if want := []string{"USE a;", "USE b;", "USE c;", "USE d;"}; !reflect.DeepEqual(executed, want) {
		t.Errorf("executed %q, want %q", executed, want)
	}
	want := "timing is on\n\r" +
		"Time: 1.000 ms\n\r" +
		"Time: 1.000 ms\n\r" +
		"timing is off\n\r"
	if out.String() != want {
		t.Errorf("output %q, want %q", out.String(), want)
	}
}
