package engine

import (
	"bytes"
	"errors"
	"math"
	"reflect"
	"testing"

	"github.com/mk6i/mkdb/sql"
	"github.com/mk6i/mkdb/storage"
)

// smallintSelect runs a SELECT against the session's database and returns the
// result values.
func smallintSelect(t *testing.T, s *Session, q string) [][]interface{} {
	t.Helper()
	stmt, err := parseSQL(q)
	if err != nil {
		t.Fatalf("parsing %s: %s", q, err)
	}
	rows, _, err := EvaluateSelect(stmt.(sql.Select), s.RelationService)
	if err != nil {
		t.Fatalf("running %s: %s", q, err)
	}
	ret := make([][]interface{}, 0, len(rows))
	for _, row := range rows {
		ret = append(ret, row.Vals)
	}
	return ret
}

func smallintSession(t *testing.T, queries ...string) *Session {
	t.Helper()
	s := &Session{}
	for _, q := range queries {
		if err := s.ExecQuery(q); err != nil {
			t.Fatalf("error running query:\n %s\nError: %s", q, err.Error())
		}
	}
	return s
}

// smallintInsert inserts one row of values the way csvimport does. The SQL
// grammar has no negative integer literals.
func smallintInsert(s *Session, table string, vals ...interface{}) error {
	q := sql.InsertStatement{
		TableName: table,
		InsertColumnsAndSource: sql.InsertColumnsAndSource{
			QueryExpression: sql.TableValueConstructor{
				TableValueConstructorList: []sql.RowValueConstructor{
					{RowValueConstructorList: vals},
				},
			},
		},
	}
	_, err := EvaluateInsert(q, s.RelationService)
	return err
}

// smallintUpdate runs UPDATE q with the first SET value replaced by val.
func smallintUpdate(t *testing.T, s *Session, q string, val interface{}) error {
	t.Helper()
	stmt, err := parseSQL(q)
	if err != nil {
		t.Fatalf("parsing %s: %s", q, err)
	}
	upd := stmt.(sql.UpdateStatementSearched)
	upd.Set[0].UpdateSource = val
	return EvaluateUpdate(upd, s.RelationService)
}

func TestSmallIntParse(t *testing.T) {
	for _, q := range []string{
		`CREATE TABLE t (a smallint, b SMALLINT, c SmallInt)`,
		`CREATE TABLE t (a smallint, b SMALLINT, c SmallInt);`,
	} {
		stmt, err := parseSQL(q)
		if err != nil {
			t.Fatalf("parsing %s: %s", q, err)
		}
		expect := sql.CreateTable{
			Name: "t",
			Elements: []sql.TableElement{
				{ColumnDefinition: sql.ColumnDefinition{Name: "a", DataType: sql.SmallIntType{}}},
				{ColumnDefinition: sql.ColumnDefinition{Name: "b", DataType: sql.SmallIntType{}}},
				{ColumnDefinition: sql.ColumnDefinition{Name: "c", DataType: sql.SmallIntType{}}},
			},
		}
		if !reflect.DeepEqual(expect, stmt) {
			t.Errorf("%s: expected %+v, got %+v", q, expect, stmt)
		}
	}

	// an unknown type name is still a syntax error
	for _, q := range []string{
		`CREATE TABLE t (a smallish)`,
		`CREATE TABLE t (a)`,
		`CREATE TABLE t (a smallint(5))`,
	} {
		if _, err := parseSQL(q); err == nil {
			t.Errorf("%s: expected a parse error", q)
		}
	}
	if _, err := parseSQL(`CREATE TABLE t (a tinyint)`); !errors.Is(err, sql.ErrSyntax) {
		t.Errorf("expected ErrSyntax for an unknown type, got %v", err)
	}
}

// smallint is not a reserved word: it can still name a table or a column
func TestSmallIntIsNotReserved(t *testing.T) {
	defer storage.ClearDataDir()

	s := smallintSession(t,
		`CREATE DATABASE smallintdb`,
		`USE smallintdb`,
		`CREATE TABLE smallint (smallint int, bigint_col bigint)`,
		`INSERT INTO smallint (smallint, bigint_col) VALUES (70000, 5000000000)`,
		`UPDATE smallint SET smallint = 70001 WHERE smallint = 70000`,
	)
	defer s.Close()

	got := smallintSelect(t, s, `SELECT smallint, bigint_col FROM smallint WHERE smallint.smallint = 70001`)
	expect := [][]interface{}{{int64(70001), int64(5000000000)}}
	if !reflect.DeepEqual(expect, got) {
		t.Errorf("expected %v, got %v", expect, got)
	}
}

func TestSmallIntEncoding(t *testing.T) {
	rel := &storage.Relation{
		Fields: []storage.FieldDef{
			{Name: "a", DataType: storage.TypeSmallInt},
			{Name: "b", DataType: storage.TypeSmallInt},
			{Name: "c", DataType: storage.TypeSmallInt},
		},
	}

	in := storage.Tuple{
		Relation: rel,
		Vals: map[string]interface{}{
			"a": int64(-2),
			"b": nil,
			"c": int64(258),
		},
	}
	buf, err := in.Encode()
	if err != nil {
		t.Fatal(err)
	}
	// null flag + 2 bytes little endian, null flag, null flag + 2 bytes
	expect := []byte{0, 0xfe, 0xff, 1, 0, 0x02, 0x01}
	if !reflect.DeepEqual(expect, buf.Bytes()) {
		t.Fatalf("expected encoding %v, got %v", expect, buf.Bytes())
	}

	out := storage.Tuple{Relation: rel, Vals: map[string]interface{}{}}
	if err := out.Decode(buf); err != nil {
		t.Fatal(err)
	}
	expectVals := map[string]interface{}{"a": int64(-2), "c": int64(258)}
	if !reflect.DeepEqual(expectVals, out.Vals) {
		t.Errorf("expected %v, got %v", expectVals, out.Vals)
	}

	// a truncated value is an error
	out = storage.Tuple{Relation: rel, Vals: map[string]interface{}{}}
	if err := out.Decode(bytes.NewBuffer([]byte{0, 0xfe})); err == nil {
		t.Errorf("expected an error decoding a truncated smallint")
	}

	for _, tc := range []struct {
		val interface{}
		err error
	}{
		{int64(math.MaxInt16), nil},
		{int64(math.MinInt16), nil},
		{int64(0), nil},
		{int64(math.MaxInt16 + 1), storage.ErrIntOutOfRange},
		{int64(math.MinInt16 - 1), storage.ErrIntOutOfRange},
		{int64(math.MaxInt64), storage.ErrIntOutOfRange},
		{int64(math.MinInt64), storage.ErrIntOutOfRange},
		{"1", storage.ErrTypeMismatch},
		{true, storage.ErrTypeMismatch},
	} {
		fd := storage.FieldDef{Name: "a", DataType: storage.TypeSmallInt}
		if err := fd.Validate(tc.val); err != tc.err {
			t.Errorf("Validate(%v): expected %v, got %v", tc.val, tc.err, err)
		}
		tup := storage.Tuple{
			Relation: &storage.Relation{Fields: []storage.FieldDef{fd}},
			Vals:     map[string]interface{}{"a": tc.val},
		}
		if _, err := tup.Encode(); err != tc.err {
			t.Errorf("Encode(%v): expected %v, got %v", tc.val, tc.err, err)
		}
	}

	// the numbers of the existing types are stored in the catalog
	if storage.TypeInt != 0 || storage.TypeVarchar != 1 || storage.TypeBoolean != 2 || storage.TypeBigInt != 3 || storage.TypeSmallInt != 4 {
		t.Errorf("data type numbers changed")
	}

	// the schema encoding of a smallint column carries no length
	rbuf, err := rel.Encode()
	if err != nil {
		t.Fatal(err)
	}
	rout := &storage.Relation{}
	if err := rout.Decode(rbuf); err != nil {
		t.Fatal(err)
	}
	if !reflect.DeepEqual(rel, rout) {
		t.Errorf("expected %v, got %v", rel, rout)
	}
}

func TestSmallIntInsertUpdateSelect(t *testing.T) {
	defer storage.ClearDataDir()

	s := smallintSession(t,
		`CREATE DATABASE smallintdb`,
		`USE smallintdb`,
		`CREATE TABLE readings (id int, level smallint, name varchar(20), big bigint)`,
	)
	defer s.Close()

	// empty table
	if got := smallintSelect(t, s, `SELECT id, level FROM readings`); len(got) != 0 {
		t.Errorf("expected no rows, got %v", got)
	}

	smallintExec := func(q string) error { return s.ExecQuery(q) }

	for _, q := range []string{
		`INSERT INTO readings VALUES (1, 32767, 'max', 5000000000)`,
		`INSERT INTO readings VALUES (3, 0, 'zero', 2)`,
		`INSERT INTO readings (id, name) VALUES (4, 'null level')`,
	} {
		if err := smallintExec(q); err != nil {
			t.Fatalf("%s: %s", q, err)
		}
	}
	if err := smallintInsert(s, "readings", int64(2), int64(math.MinInt16), "min", int64(1)); err != nil {
		t.Fatal(err)
	}
	if err := smallintInsert(s, "readings", int64(5), int64(math.MinInt16-1), "under", int64(1)); err != storage.ErrIntOutOfRange {
		t.Errorf("expected ErrIntOutOfRange, got %v", err)
	}
	if err := smallintUpdate(t, s, `UPDATE readings SET level = 0 WHERE id = 3`, int64(math.MinInt16-1)); err != storage.ErrIntOutOfRange {
		t.Errorf("expected ErrIntOutOfRange, got %v", err)
	}

	// out of range and mistyped values are refused, nothing is inserted
	for q, expect := range map[string]error{
		`INSERT INTO readings VALUES (5, 32768, 'over', 1)`:                       storage.ErrIntOutOfRange,
		`INSERT INTO readings VALUES (5, 2147483648, 'way over', 1)`:              storage.ErrIntOutOfRange,
		`INSERT INTO readings VALUES (5, 'abc', 'string', 1)`:                     storage.ErrTypeMismatch,
		`INSERT INTO readings VALUES (5, true, 'bool', 1)`:                        storage.ErrTypeMismatch,
		`UPDATE readings SET level = 32768`:                                       storage.ErrIntOutOfRange,
		`UPDATE readings SET level = 'abc' WHERE id = 3`:                          storage.ErrTypeMismatch,
		`UPDATE readings SET name = 'changed', level = 40000 WHERE id = 3`:        storage.ErrIntOutOfRange,
		`UPDATE readings SET level = 40000, name = 'changed' WHERE name = 'zero'`: storage.ErrIntOutOfRange,
	} {
		if err := smallintExec(q); !errors.Is(err, expect) {
			t.Errorf("%s: expected %v, got %v", q, expect, err)
		}
	}

	expect := [][]interface{}{
		{int64(1), int64(32767), "max", int64(5000000000)},
		{int64(2), int64(-32768), "min", int64(1)},
		{int64(3), int64(0), "zero", int64(2)},
		{int64(4), nil, "null level", nil},
	}
	if got := smallintSelect(t, s, `SELECT id, level, name, big FROM readings ORDER BY id`); !reflect.DeepEqual(expect, got) {
		t.Errorf("expected %v, got %v", expect, got)
	}

	// int and bigint columns keep their own ranges
	if err := smallintExec(`INSERT INTO readings VALUES (2147483648, 1, 'x', 1)`); !errors.Is(err, storage.ErrIntOutOfRange) {
		t.Errorf("expected ErrIntOutOfRange for the int column, got %v", err)
	}
	if err := smallintExec(`UPDATE readings SET id = 40000, big = 40000 WHERE id = 3`); err != nil {
		t.Errorf("40000 fits int and bigint: %v", err)
	}
	if err := smallintExec(`UPDATE readings SET id = 3 WHERE id = 40000`); err != nil {
		t.Error(err)
	}

	// update within range, including a row whose value was NULL
	if err := smallintUpdate(t, s, `UPDATE readings SET level = 0 WHERE id = 4`, int64(-7)); err != nil {
		t.Fatal(err)
	}
	if err := smallintExec(`UPDATE readings SET level = 12 WHERE level = 0`); err != nil {
		t.Fatal(err)
	}

	// comparisons, ordering and aggregates see an ordinary integer
	expect = [][]interface{}{
		{int64(1), int64(32767)},
		{int64(3), int64(12)},
		{int64(4), int64(-7)},
		{int64(2), int64(-32768)},
	}
	if got := smallintSelect(t, s, `SELECT id, level FROM readings ORDER BY level DESC`); !reflect.DeepEqual(expect, got) {
		t.Errorf("expected %v, got %v", expect, got)
	}
	expect = [][]interface{}{{int64(2), int64(-32768)}, {int64(3), int64(12)}, {int64(4), int64(-7)}}
	if got := smallintSelect(t, s, `SELECT id, level FROM readings WHERE level < 13 AND level != 32767 ORDER BY id`); !reflect.DeepEqual(expect, got) {
		t.Errorf("expected %v, got %v", expect, got)
	}
	expect = [][]interface{}{{int64(4), int64(1)}}
	if got := smallintSelect(t, s, `SELECT count(level), avg(level) FROM readings`); !reflect.DeepEqual(expect, got) {
		t.Errorf("expected %v, got %v", expect, got)
	}

	// the catalog records the new type number, the existing ones are unchanged
	expect = [][]interface{}{
		{"id", int64(storage.TypeInt)},
		{"level", int64(storage.TypeSmallInt)},
		{"name", int64(storage.TypeVarchar)},
		{"big", int64(storage.TypeBigInt)},
	}
	if got := smallintSelect(t, s, `SELECT field_name, field_type FROM sys_schema WHERE table_name = 'readings'`); !reflect.DeepEqual(expect, got) {
		t.Errorf("expected %v, got %v", expect, got)
	}
}

// the rows survive closing and reopening the database
func TestSmallIntReopen(t *testing.T) {
	defer storage.ClearDataDir()

	s := smallintSession(t,
		`CREATE DATABASE smallintdb`,
		`USE smallintdb`,
		`CREATE TABLE readings (level smallint, name varchar(20))`,
		`INSERT INTO readings VALUES (1, 'a'), (300, 'b')`,
	)
	if err := smallintInsert(s, "readings", int64(-1), "c"); err != nil {
		t.Fatal(err)
	}
	if err := smallintUpdate(t, s, `UPDATE readings SET level = 0 WHERE name = 'b'`, int64(-300)); err != nil {
		t.Fatal(err)
	}
	if err := s.Close(); err != nil {
		t.Fatal(err)
	}

	s = smallintSession(t, `USE smallintdb`)
	defer s.Close()

	expect := [][]interface{}{{int64(1), "a"}, {int64(-300), "b"}, {int64(-1), "c"}}
	if got := smallintSelect(t, s, `SELECT level, name FROM readings ORDER BY name`); !reflect.DeepEqual(expect, got) {
		t.Errorf("expected %v, got %v", expect, got)
	}
}
