package engine

import (
	"errors"
	"io/ioutil"
	"path/filepath"
	"reflect"
	"testing"

	"github.com/mk6i/mkdb/sql"
	"github.com/mk6i/mkdb/storage"
)

func TestParseTruncate(t *testing.T) {
	valid := []string{
		`TRUNCATE TABLE people`,
		`truncate table people`,
		`Truncate Table people;`,
	}
	for _, q := range valid {
		stmt, err := parseSQL(q)
		if err != nil {
			t.Errorf("%s: unexpected error: %s", q, err.Error())
			continue
		}
		if !reflect.DeepEqual(sql.TruncateTable{TableName: "people"}, stmt) {
			t.Errorf("%s: unexpected statement %#v", q, stmt)
		}
	}

	invalid := []string{
		`TRUNCATE`,
		`TRUNCATE people`,
		`TRUNCATE TABLE`,
		`TRUNCATE TABLE 12`,
		`TRUNCATE TABLE people cars`,
		`TRUNCATE TABLE people, cars`,
		`TRUNCATE TABLE people WHERE person_id = 1`,
		`TRUNCATE DATABASE people`,
		`TRUNCATES TABLE people`,
	}
	for _, q := range invalid {
		if _, err := parseSQL(q); err == nil {
			t.Errorf("%s: expected a parse error", q)
		}
	}
}

// TRUNCATE is not a reserved word: statements that use it as a name parse the
// way they did before.
func TestParseTruncateIsNotReserved(t *testing.T) {
	stmt, err := parseSQL(`SELECT truncate FROM truncate`)
	if err != nil {
		t.Fatalf("unexpected error: %s", err.Error())
	}
	sel, ok := stmt.(sql.Select)
	if !ok {
		t.Fatalf("expected a select statement, got %#v", stmt)
	}
	expCol := sql.ColumnReference{ColumnName: "truncate"}
	if !reflect.DeepEqual(expCol, sel.SelectList[0].ValueExpressionPrimary) {
		t.Errorf("unexpected select column %#v", sel.SelectList[0])
	}
	expFrom := sql.FromClause{sql.TableName{Name: "truncate"}}
	if !reflect.DeepEqual(expFrom, sel.FromClause) {
		t.Errorf("unexpected from clause %#v", sel.FromClause)
	}

	for _, q := range []string{
		`CREATE TABLE truncate (truncate int)`,
		`INSERT INTO truncate (truncate) VALUES (1)`,
		`DELETE FROM truncate WHERE truncate = 1`,
	} {
		if _, err := parseSQL(q); err != nil {
			t.Errorf("%s: unexpected error: %s", q, err.Error())
		}
	}
}

func TestEvaluateTruncate(t *testing.T) {
	errFetch := errors.New("fetch failed")
	errMark := errors.New("mark deleted failed")
	errFlush := errors.New("flush failed")

	rowsOf := func(ids ...uint32) []*storage.Row {
		var rows []*storage.Row
		for _, id := range ids {
			// a row of NULLs is a row like any other
			rows = append(rows, &storage.Row{RowID: id, Vals: []interface{}{nil}})
		}
		return rows
	}

	tc := []struct {
		name          string
		table         string
		givenRows     []*storage.Row
		fetchErr      error
		markErrAt     uint32
		flushErr      error
		expectDeleted []uint32
		expectFlushed []uint32
		expectFlushes int
		expectCount   int
		expectErr     error
	}{
		{
			name:          "every row is deleted and logged in one batch",
			table:         "tbl1",
			givenRows:     rowsOf(1, 2, 5, 9),
			expectDeleted: []uint32{1, 2, 5, 9},
			expectFlushed: []uint32{1, 2, 5, 9},
			expectFlushes: 1,
			expectCount:   4,
		},
		{
			name:          "empty table",
			table:         "tbl1",
			expectFlushes: 1,
		},
		{
			name:      "table can not be read",
			table:     "tbl1",
			fetchErr:  errFetch,
			expectErr: errFetch,
		},
		{
			name:          "row can not be deleted: same outcome as DELETE",
			table:         "tbl1",
			givenRows:     rowsOf(1, 2, 3),
			markErrAt:     2,
			expectDeleted: []uint32{1},
			expectErr:     errMark,
		},
		{
			name:          "log can not be written: same outcome as DELETE",
			table:         "tbl1",
			givenRows:     rowsOf(1, 2),
			flushErr:      errFlush,
			expectDeleted: []uint32{1, 2},
			expectFlushed: []uint32{1, 2},
			expectFlushes: 1,
			expectCount:   2,
			expectErr:     errFlush,
		},
		{
			name:      "page catalog is refused",
			table:     "sys_pages",
			givenRows: rowsOf(1, 2),
			expectErr: ErrTruncateSystemTable,
		},
		{
			name:      "schema catalog is refused",
			table:     "sys_schema",
			givenRows: rowsOf(1, 2),
			expectErr: ErrTruncateSystemTable,
		},
	}

	for _, test := range tc {
		t.Run(test.name, func(t *testing.T) {
			var deleted, flushed []uint32
			flushes := 0

			rm := &mockRelationManager{
				fetch: func(tableName string) ([]*storage.Row, []*storage.Field, error) {
					if tableName != test.table {
						t.Errorf("fetch of unexpected table %s", tableName)
					}
					if test.fetchErr != nil {
						return nil, nil, test.fetchErr
					}
					return test.givenRows, []*storage.Field{{Column: "val"}}, nil
				},
				markDeleted: func(tableName string, rowID uint32) (storage.WALBatch, error) {
					if tableName != test.table {
						t.Errorf("delete from unexpected table %s", tableName)
					}
					if test.markErrAt != 0 && test.markErrAt == rowID {
						return nil, errMark
					}
					deleted = append(deleted, rowID)
					return storage.WALBatch{{WALOp: storage.OpDelete, LSN: uint64(rowID)}}, nil
				},
				flushWALBatch: func(batch storage.WALBatch) error {
					flushes++
					for _, entry := range batch {
						if entry.WALOp != storage.OpDelete {
							t.Errorf("unexpected log record %v", entry)
						}
						flushed = append(flushed, uint32(entry.LSN))
					}
					return test.flushErr
				},
			}

			count, err := EvaluateTruncate(sql.TruncateTable{TableName: test.table}, rm)

			if !errors.Is(err, test.expectErr) {
				t.Errorf("expected error `%v`, got `%v`", test.expectErr, err)
			}
			if test.expectCount != count {
				t.Errorf("expected count %d, got %d", test.expectCount, count)
			}
			if !reflect.DeepEqual(test.expectDeleted, deleted) {
				t.Errorf("expected deleted rows %v, got %v", test.expectDeleted, deleted)
			}
			if !reflect.DeepEqual(test.expectFlushed, flushed) {
				t.Errorf("expected logged rows %v, got %v", test.expectFlushed, flushed)
			}
			if test.expectFlushes != flushes {
				t.Errorf("expected %d log flushes, got %d", test.expectFlushes, flushes)
			}
		})
	}
}

// TRUNCATE and DELETE without WHERE do the same calls in the same order.
func TestEvaluateTruncateMatchesDelete(t *testing.T) {
	run := func(eval func(rm RelationManager) (int, error)) ([]string, int, error) {
		var calls []string
		rm := &mockRelationManager{
			fetch: func(tableName string) ([]*storage.Row, []*storage.Field, error) {
				calls = append(calls, "fetch "+tableName)
				return []*storage.Row{
					{RowID: 3, Vals: []interface{}{"a"}},
					{RowID: 4, Vals: []interface{}{nil}},
				}, []*storage.Field{{Column: "val"}}, nil
			},
			markDeleted: func(tableName string, rowID uint32) (storage.WALBatch, error) {
				calls = append(calls, "delete "+tableName+" "+string(rune('0'+rowID)))
				return storage.WALBatch{{WALOp: storage.OpDelete}}, nil
			},
			flushWALBatch: func(batch storage.WALBatch) error {
				calls = append(calls, "flush "+string(rune('0'+len(batch))))
				return nil
			},
		}
		count, err := eval(rm)
		return calls, count, err
	}

	tCalls, tCount, tErr := run(func(rm RelationManager) (int, error) {
		return EvaluateTruncate(sql.TruncateTable{TableName: "tbl1"}, rm)
	})
	dCalls, dCount, dErr := run(func(rm RelationManager) (int, error) {
		return EvaluateDelete(sql.DeleteStatementSearched{TableName: "tbl1"}, rm)
	})

	if tErr != nil || dErr != nil {
		t.Fatalf("unexpected errors: %v, %v", tErr, dErr)
	}
	if tCount != dCount || !reflect.DeepEqual(tCalls, dCalls) {
		t.Errorf("truncate did %v (%d), delete did %v (%d)", tCalls, tCount, dCalls, dCount)
	}
}

func truncateTestExec(t *testing.T, s *Session, queries ...string) {
	t.Helper()
	for _, q := range queries {
		if err := s.ExecQuery(q); err != nil {
			t.Fatalf("error running query:\n %s\nError: %s", q, err.Error())
		}
	}
}

func truncateTestSelect(t *testing.T, s *Session, q string) [][]interface{} {
	t.Helper()
	stmt, err := parseSQL(q)
	if err != nil {
		t.Fatalf("error parsing query:\n %s\nError: %s", q, err.Error())
	}
	rows, _, err := EvaluateSelect(stmt.(sql.Select), s.RelationService)
	if err != nil {
		t.Fatalf("error running query:\n %s\nError: %s", q, err.Error())
	}
	var vals [][]interface{}
	for _, row := range rows {
		vals = append(vals, row.Vals)
	}
	return vals
}

func TestTruncateSession(t *testing.T) {
	defer storage.ClearDataDir()

	s := Session{}

	if err := s.ExecQuery(`TRUNCATE TABLE people`); err == nil {
		t.Errorf("expected an error without a selected database")
	}

	truncateTestExec(t, &s,
		`CREATE DATABASE testtruncate`,
		`USE testtruncate`,
		`CREATE TABLE people (person_id int, first_name varchar(255))`,
		`CREATE TABLE cars (name varchar(255))`,
	)
	defer s.Close()

	if err := s.ExecQuery(`TRUNCATE TABLE planes`); err != storage.ErrTableNotExist {
		t.Errorf("expected ErrTableNotExist, got %v", err)
	}
	for _, q := range []string{`TRUNCATE TABLE sys_pages`, `TRUNCATE TABLE sys_schema`} {
		if err := s.ExecQuery(q); !errors.Is(err, ErrTruncateSystemTable) {
			t.Errorf("%s: expected ErrTruncateSystemTable, got %v", q, err)
		}
	}

	// an empty table stays empty
	truncateTestExec(t, &s, `TRUNCATE TABLE people`)
	if rows := truncateTestSelect(t, &s, `SELECT * FROM people`); len(rows) != 0 {
		t.Errorf("expected no rows, got %v", rows)
	}

	truncateTestExec(t, &s, `INSERT INTO cars VALUES ('beetle'), ('mini')`)
	// enough rows to span several pages
	for i := 0; i < 10; i++ {
		truncateTestExec(t, &s, `INSERT INTO people VALUES
			(1, 'John'), (2, 'Ikra'), (3, 'Gerrard'), (4, 'Malia'), (5, 'Willow'),
			(6, 'Mylee'), (7, 'Leland'), (8, 'Chance'), (9, 'Cairo'), (10, 'Khadija')`)
	}
	truncateTestExec(t, &s, `INSERT INTO people (person_id) VALUES (11)`)
	if rows := truncateTestSelect(t, &s, `SELECT count(*) FROM people`); !reflect.DeepEqual([][]interface{}{{int64(101)}}, rows) {
		t.Fatalf("expected 101 rows before truncation, got %v", rows)
	}

	truncateTestExec(t, &s, `TRUNCATE TABLE people;`)

	if rows := truncateTestSelect(t, &s, `SELECT * FROM people`); len(rows) != 0 {
		t.Errorf("expected no rows after truncation, got %v", rows)
	}
	if rows := truncateTestSelect(t, &s, `SELECT count(*) FROM people`); !reflect.DeepEqual([][]interface{}{{int64(0)}}, rows) {
		t.Errorf("expected a count of 0 after truncation, got %v", rows)
	}
	// other tables and the catalog are untouched
	if rows := truncateTestSelect(t, &s, `SELECT name FROM cars`); !reflect.DeepEqual([][]interface{}{{"beetle"}, {"mini"}}, rows) {
		t.Errorf("unexpected rows in other table: %v", rows)
	}
	if rows := truncateTestSelect(t, &s, `SELECT field_name FROM sys_schema WHERE table_name = 'people'`); len(rows) != 2 {
		t.Errorf("expected the schema of the truncated table to stay, got %v", rows)
	}

	// the table is usable afterwards
	truncateTestExec(t, &s, `INSERT INTO people VALUES (12, 'Zed')`, `TRUNCATE TABLE people`, `INSERT INTO people VALUES (13, 'Amy')`)
	if rows := truncateTestSelect(t, &s, `SELECT person_id, first_name FROM people`); !reflect.DeepEqual([][]interface{}{{int64(13), "Amy"}}, rows) {
		t.Errorf("unexpected rows after insert into truncated table: %v", rows)
	}
}

// a truncation that never reached the data file is redone from the WAL.
func TestTruncateRecovery(t *testing.T) {
	defer storage.ClearDataDir()

	tblPath := filepath.Join("data", "testtruncaterecovery", "tbl")

	s := Session{}
	truncateTestExec(t, &s,
		`CREATE DATABASE testtruncaterecovery`,
		`USE testtruncaterecovery`,
		`CREATE TABLE people (person_id int, first_name varchar(255))`,
		`CREATE TABLE cars (name varchar(255))`,
		`INSERT INTO cars VALUES ('beetle')`,
	)
	for i := 0; i < 10; i++ {
		truncateTestExec(t, &s, `INSERT INTO people VALUES
			(1, 'John'), (2, 'Ikra'), (3, 'Gerrard'), (4, 'Malia'), (5, 'Willow'),
			(6, 'Mylee'), (7, 'Leland'), (8, 'Chance'), (9, 'Cairo'), (10, 'Khadija')`)
	}
	// closing writes all pages to the data file
	if err := s.Close(); err != nil {
		t.Fatalf("error closing session: %s", err.Error())
	}
	beforeTruncate, err := ioutil.ReadFile(tblPath)
	if err != nil {
		t.Fatalf("error reading data file: %s", err.Error())
	}

	s = Session{}
	truncateTestExec(t, &s, `USE testtruncaterecovery`)
	if rows := truncateTestSelect(t, &s, `SELECT count(*) FROM people`); !reflect.DeepEqual([][]interface{}{{int64(100)}}, rows) {
		t.Fatalf("expected 100 rows before truncation, got %v", rows)
	}
	truncateTestExec(t, &s, `TRUNCATE TABLE people`)
	if err := s.Close(); err != nil {
		t.Fatalf("error closing session: %s", err.Error())
	}

	// pretend that the pages changed by the truncation were never written:
	// the data file is back to what it was, the log has the truncation
	if err := ioutil.WriteFile(tblPath, beforeTruncate, 0644); err != nil {
		t.Fatalf("error restoring data file: %s", err.Error())
	}
	if err := storage.InitStorage(); err != nil {
		t.Fatalf("recovery error: %s", err.Error())
	}

	s = Session{}
	truncateTestExec(t, &s, `USE testtruncaterecovery`)
	defer s.Close()
	if rows := truncateTestSelect(t, &s, `SELECT * FROM people`); len(rows) != 0 {
		t.Errorf("expected no rows after recovery, got %d", len(rows))
	}
	if rows := truncateTestSelect(t, &s, `SELECT name FROM cars`); !reflect.DeepEqual([][]interface{}{{"beetle"}}, rows) {
		t.Errorf("unexpected rows in other table after recovery: %v", rows)
	}
}
