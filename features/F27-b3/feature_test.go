package engine

import (
	"errors"
	"reflect"
	"testing"

	"github.com/mk6i/mkdb/sql"
	"github.com/mk6i/mkdb/storage"
)

// betweenFixture serves table tbl1 (id int, num int, str varchar, flag bool)
// and records the rows that UPDATE and DELETE touch.
type betweenFixture struct {
	mockRelationManager
	updated []uint32
	deleted []uint32
	flushed int
}

func newBetweenFixture() *betweenFixture {
	f := &betweenFixture{}
	f.fetch = func(tableName string) ([]*storage.Row, []*storage.Field, error) {
		if tableName != "tbl1" {
			return nil, nil, storage.ErrTableNotExist
		}
		fields := []*storage.Field{
			{Column: "id"},
			{Column: "num"},
			{Column: "str"},
			{Column: "flag"},
		}
		rows := []*storage.Row{
			{RowID: 0, Vals: []interface{}{int64(0), int64(-5), "apple", true}},
			{RowID: 1, Vals: []interface{}{int64(1), int64(1), "banana", false}},
			{RowID: 2, Vals: []interface{}{int64(2), int64(5), "cherry", true}},
			{RowID: 3, Vals: []interface{}{int64(3), nil, nil, nil}},
			{RowID: 4, Vals: []interface{}{int64(4), int64(10), "date", false}},
			{RowID: 5, Vals: []interface{}{int64(5), int64(11), "", true}},
			{RowID: 6, Vals: []interface{}{int64(6), int64(7), "Cherry", false}},
		}
		return rows, fields, nil
	}
	f.update = func(tableName string, rowID uint32, cols []string, updateSrc []interface{}) (storage.WALBatch, error) {
		f.updated = append(f.updated, rowID)
		return nil, nil
	}
	f.markDeleted = func(tableName string, rowID uint32) (storage.WALBatch, error) {
		f.deleted = append(f.deleted, rowID)
		return nil, nil
	}
	f.flushWALBatch = func(batch storage.WALBatch) error {
		f.flushed++
		return nil
	}
	return f
}

func TestBetweenParse(t *testing.T) {
	stmt, err := parseSQL(`SELECT * FROM tbl1 WHERE t.num BETWEEN 1 AND 10 AND str = 'a'`)
	if err != nil {
		t.Fatalf("unexpected parse error: %v", err)
	}
	expect := sql.WhereClause{
		SearchCondition: sql.BooleanTerm{
			LHS: sql.Predicate{
				ComparisonPredicate: sql.ComparisonPredicate{
					LHS:    sql.ColumnReference{Qualifier: "t", ColumnName: "num"},
					CompOp: sql.BETWEEN,
					RHS: sql.BetweenBounds{
						Low:  int64(1),
						High: int64(10),
					},
				},
			},
			RHS: sql.Predicate{
				ComparisonPredicate: sql.ComparisonPredicate{
					LHS:    sql.ColumnReference{ColumnName: "str"},
					CompOp: sql.EQ,
					RHS:    "a",
				},
			},
		},
	}
	if actual := stmt.(sql.Select).WhereClause; !reflect.DeepEqual(expect, actual) {
		t.Errorf("ASTs are not the same. expected: %+v actual: %+v", expect, actual)
	}

	// keyword is case-insensitive, bounds may be strings or columns
	stmt, err = parseSQL(`select * from tbl1 where str between 'a' and other.col;`)
	if err != nil {
		t.Fatalf("unexpected parse error: %v", err)
	}
	expect = sql.WhereClause{
		SearchCondition: sql.Predicate{
			ComparisonPredicate: sql.ComparisonPredicate{
				LHS:    sql.ColumnReference{ColumnName: "str"},
				CompOp: sql.BETWEEN,
				RHS: sql.BetweenBounds{
					Low:  "a",
					High: sql.ColumnReference{Qualifier: "other", ColumnName: "col"},
				},
			},
		},
	}
	if actual := stmt.(sql.Select).WhereClause; !reflect.DeepEqual(expect, actual) {
		t.Errorf("ASTs are not the same. expected: %+v actual: %+v", expect, actual)
	}
}

func TestBetweenParseErrors(t *testing.T) {
	tc := []struct {
		query     string
		expectErr error
	}{
		{query: `SELECT * FROM tbl1 WHERE num BETWEEN 1`, expectErr: sql.ErrUnexpectedToken},
		{query: `SELECT * FROM tbl1 WHERE num BETWEEN 1 AND`, expectErr: sql.ErrUnexpectedToken},
		{query: `SELECT * FROM tbl1 WHERE num BETWEEN 1 OR 2`, expectErr: sql.ErrUnexpectedToken},
		{query: `SELECT * FROM tbl1 WHERE num BETWEEN 1, 2`, expectErr: sql.ErrUnexpectedToken},
		{query: `SELECT * FROM tbl1 WHERE num BETWEEN 1 AND AND 2`, expectErr: sql.ErrUnexpectedToken},
		{query: `SELECT * FROM tbl1 WHERE num BETWEEN 1 AND 2 3`, expectErr: sql.ErrSyntax},
		{query: `SELECT * FROM tbl1 WHERE num BETWEEN AND 2`, expectErr: sql.ErrSyntax},
		{query: `SELECT * FROM tbl1 WHERE num BETWEEN`, expectErr: sql.ErrSyntax},
		{query: `SELECT * FROM tbl1 WHERE num BETWEEN (1) AND (2)`, expectErr: sql.ErrSyntax},
		{query: `SELECT * FROM tbl1 WHERE BETWEEN 1 AND 2`, expectErr: sql.ErrSyntax},
		{query: `DELETE FROM tbl1 WHERE num BETWEEN 1`, expectErr: sql.ErrUnexpectedToken},
		{query: `UPDATE tbl1 SET num = 1 WHERE num BETWEEN 1 AND`, expectErr: sql.ErrUnexpectedToken},
	}
	for _, test := range tc {
		t.Run(test.query, func(t *testing.T) {
			stmt, err := parseSQL(test.query)
			if !errors.Is(err, test.expectErr) {
				t.Errorf("expected error `%v`, got `%v` (statement %+v)", test.expectErr, err, stmt)
			}
		})
	}
}

// TestBetweenIsNotReserved makes sure that statements that use the word
// `between` as an identifier are parsed the way they were before the BETWEEN
// predicate existed.
func TestBetweenIsNotReserved(t *testing.T) {
	col := func(name string) sql.ColumnReference {
		return sql.ColumnReference{ColumnName: name}
	}

	tc := []struct {
		query      string
		expectList sql.SelectList
	}{
		{
			query: `SELECT between FROM tbl1`,
			expectList: sql.SelectList{
				{ValueExpressionPrimary: col("between")},
			},
		},
		{
			query: `SELECT num between FROM tbl1`,
			expectList: sql.SelectList{
				{ValueExpressionPrimary: col("num"), AsClause: "between"},
			},
		},
		{
			query: `SELECT num between, str FROM tbl1`,
			expectList: sql.SelectList{
				{ValueExpressionPrimary: col("num"), AsClause: "between"},
				{ValueExpressionPrimary: col("str")},
			},
		},
		{
			query: `SELECT num AS between FROM tbl1`,
			expectList: sql.SelectList{
				{ValueExpressionPrimary: col("num"), AsClause: "between"},
			},
		},
		{
			query: `SELECT num between`,
			expectList: sql.SelectList{
				{ValueExpressionPrimary: col("num"), AsClause: "between"},
			},
		},
		{
			query: `SELECT between.between FROM between between WHERE between = 1`,
			expectList: sql.SelectList{
				{ValueExpressionPrimary: sql.ColumnReference{Qualifier: "between", ColumnName: "between"}},
			},
		},
	}
	for _, test := range tc {
		t.Run(test.query, func(t *testing.T) {
			stmt, err := parseSQL(test.query)
			if err != nil {
				t.Fatalf("unexpected parse error: %v", err)
			}
			if actual := stmt.(sql.Select).SelectList; !reflect.DeepEqual(test.expectList, actual) {
				t.Errorf("select list mismatch. expected: %+v actual: %+v", test.expectList, actual)
			}
		})
	}

	for _, q := range []string{
		`CREATE TABLE between (between int)`,
		`INSERT INTO between (between) VALUES (1)`,
		`UPDATE between SET between = 2 WHERE between = 1`,
		`DELETE FROM between WHERE between = 2`,
		`SELECT count(between) FROM between GROUP BY between ORDER BY between`,
	} {
		if _, err := parseSQL(q); err != nil {
			t.Errorf("query `%s`: unexpected parse error: %v", q, err)
		}
	}

	if sql.TokenType(sql.BETWEEN).IsReservedWord() {
		t.Errorf("BETWEEN must not be a reserved word")
	}
}

func TestBetweenSelect(t *testing.T) {
	tc := []struct {
		name      string
		query     string
		expectIDs []int64
	}{
		{
			name:      "integers, both bounds are inclusive, NULL does not match",
			query:     `SELECT id FROM tbl1 WHERE num BETWEEN 1 AND 10`,
			expectIDs: []int64{1, 2, 4, 6},
		},
		{
			name:      "equal bounds",
			query:     `SELECT id FROM tbl1 WHERE num BETWEEN 5 AND 5`,
			expectIDs: []int64{2},
		},
		{
			name:      "lower bound above upper bound matches nothing",
			query:     `SELECT id FROM tbl1 WHERE num BETWEEN 10 AND 1`,
			expectIDs: []int64{},
		},
		{
			name:      "no row in range",
			query:     `SELECT id FROM tbl1 WHERE num BETWEEN 100 AND 200`,
			expectIDs: []int64{},
		},
		{
			name:      "strings compare bytewise like >= and <=",
			query:     `SELECT id FROM tbl1 WHERE str BETWEEN 'banana' AND 'cherry'`,
			expectIDs: []int64{1, 2},
		},
		{
			name:      "empty string is a value, not NULL",
			query:     `SELECT id FROM tbl1 WHERE str BETWEEN '' AND 'a'`,
			expectIDs: []int64{5, 6},
		},
		{
			name:      "column bounds",
			query:     `SELECT id FROM tbl1 WHERE id BETWEEN num AND 10`,
			expectIDs: []int64{0, 1},
		},
		{
			name:      "NULL bound does not match",
			query:     `SELECT id FROM tbl1 WHERE 5 BETWEEN 1 AND num`,
			expectIDs: []int64{2, 4, 5, 6},
		},
		{
			name:      "literal operand",
			query:     `SELECT id FROM tbl1 WHERE 5 BETWEEN num AND 7`,
			expectIDs: []int64{0, 1, 2},
		},
		{
			name:      "followed by AND",
			query:     `SELECT id FROM tbl1 WHERE num BETWEEN 1 AND 10 AND flag = true`,
			expectIDs: []int64{2},
		},
		{
			name:      "preceded by AND, followed by AND",
			query:     `SELECT id FROM tbl1 WHERE flag = false AND num BETWEEN 1 AND 10 AND id != 4`,
			expectIDs: []int64{1, 6},
		},
		{
			name:      "combined with OR",
			query:     `SELECT id FROM tbl1 WHERE num BETWEEN 1 AND 4 OR str BETWEEN 'd' AND 'e'`,
			expectIDs: []int64{1, 4},
		},
		{
			name:      "two BETWEEN predicates",
			query:     `SELECT id FROM tbl1 WHERE num BETWEEN 1 AND 10 AND str BETWEEN 'a' AND 'c'`,
			expectIDs: []int64{1},
		},
		{
			name:      "with ORDER BY and LIMIT",
			query:     `SELECT id FROM tbl1 WHERE num BETWEEN 1 AND 10 ORDER BY id DESC LIMIT 2`,
			expectIDs: []int64{6, 4},
		},
	}

	for _, test := range tc {
		t.Run(test.name, func(t *testing.T) {
			stmt, err := parseSQL(test.query)
			if err != nil {
				t.Fatalf("unexpected parse error: %v", err)
			}
			rows, _, err := EvaluateSelect(stmt.(sql.Select), newBetweenFixture())
			if err != nil {
				t.Fatalf("unexpected error: %v", err)
			}
			actual := []int64{}
			for _, row := range rows {
				actual = append(actual, row.Vals[0].(int64))
			}
			if !reflect.DeepEqual(test.expectIDs, actual) {
				t.Errorf("rows do not match. expected: %v actual: %v", test.expectIDs, actual)
			}
		})
	}
}

// TestBetweenMatchesComparisons checks a BETWEEN x AND y against its
// definition a >= x AND a <= y on a table without NULLs.
func TestBetweenMatchesComparisons(t *testing.T) {
	fixture := func(fields []*storage.Field, vals []interface{}) *mockRelationManager {
		return &mockRelationManager{
			fetch: func(tableName string) ([]*storage.Row, []*storage.Field, error) {
				var rows []*storage.Row
				for _, v := range vals {
					rows = append(rows, &storage.Row{Vals: []interface{}{v}})
				}
				return rows, fields, nil
			},
		}
	}
	run := func(t *testing.T, query string, rm *mockRelationManager) []interface{} {
		stmt, err := parseSQL(query)
		if err != nil {
			t.Fatalf("query `%s`: unexpected parse error: %v", query, err)
		}
		rows, _, err := EvaluateSelect(stmt.(sql.Select), rm)
		if err != nil {
			t.Fatalf("query `%s`: unexpected error: %v", query, err)
		}
		ans := []interface{}{}
		for _, row := range rows {
			ans = append(ans, row.Vals[0])
		}
		return ans
	}

	ints := []interface{}{int64(0), int64(1), int64(2), int64(3), int64(4), int64(5)}
	for _, lo := range []string{"0", "1", "3", "5", "9"} {
		for _, hi := range []string{"0", "2", "3", "5", "9"} {
			fields := func() []*storage.Field { return []*storage.Field{{Column: "a"}} }
			between := run(t, "SELECT a FROM t WHERE a BETWEEN "+lo+" AND "+hi, fixture(fields(), ints))
			compare := run(t, "SELECT a FROM t WHERE a >= "+lo+" AND a <= "+hi, fixture(fields(), ints))
			if !reflect.DeepEqual(compare, between) {
				t.Errorf("BETWEEN %s AND %s: expected %v, got %v", lo, hi, compare, between)
			}
		}
	}

	strs := []interface{}{"", "a", "ab", "b", "B", "c"}
	for _, lo := range []string{"''", "'a'", "'ab'", "'b'", "'z'"} {
		for _, hi := range []string{"''", "'a'", "'b'", "'bb'", "'z'"} {
			fields := func() []*storage.Field { return []*storage.Field{{Column: "a"}} }
			between := run(t, "SELECT a FROM t WHERE a BETWEEN "+lo+" AND "+hi, fixture(fields(), strs))
			compare := run(t, "SELECT a FROM t WHERE a >= "+lo+" AND a <= "+hi, fixture(fields(), strs))
			if !reflect.DeepEqual(compare, between) {
				t.Errorf("BETWEEN %s AND %s: expected %v, got %v", lo, hi, compare, between)
			}
		}
	}
}

func TestBetweenSelectErrors(t *testing.T) {
	tc := []struct {
		query     string
		expectErr error
	}{
		{query: `SELECT id FROM tbl1 WHERE num BETWEEN 'a' AND 'z'`, expectErr: ErrIncompatTypeCompare},
		{query: `SELECT id FROM tbl1 WHERE num BETWEEN 1 AND 'z'`, expectErr: ErrIncompatTypeCompare},
		{query: `SELECT id FROM tbl1 WHERE num BETWEEN 'a' AND 10`, expectErr: ErrIncompatTypeCompare},
		{query: `SELECT id FROM tbl1 WHERE str BETWEEN 1 AND 10`, expectErr: ErrIncompatTypeCompare},
		{query: `SELECT id FROM tbl1 WHERE str BETWEEN 'a' AND id`, expectErr: ErrIncompatTypeCompare},
		{query: `SELECT id FROM tbl1 WHERE flag BETWEEN false AND true`, expectErr: ErrIncompatTypeCompare},
		{query: `SELECT id FROM tbl1 WHERE num BETWEEN false AND true`, expectErr: ErrIncompatTypeCompare},
		{query: `SELECT id FROM tbl1 WHERE nope BETWEEN 1 AND 10`, expectErr: storage.ErrFieldNotFound},
		{query: `SELECT id FROM tbl1 WHERE num BETWEEN nope AND 10`, expectErr: storage.ErrFieldNotFound},
		{query: `SELECT id FROM tbl1 WHERE num BETWEEN 1 AND nope`, expectErr: storage.ErrFieldNotFound},
		{query: `SELECT id FROM nope WHERE num BETWEEN 1 AND 10`, expectErr: storage.ErrTableNotExist},
	}
	for _, test := range tc {
		t.Run(test.query, func(t *testing.T) {
			stmt, err := parseSQL(test.query)
			if err != nil {
				t.Fatalf("unexpected parse error: %v", err)
			}
			rows, fields, err := EvaluateSelect(stmt.(sql.Select), newBetweenFixture())
			if !errors.Is(err, test.expectErr) {
				t.Errorf("expected error `%v`, got `%v`", test.expectErr, err)
			}
			if rows != nil || fields != nil {
				t.Errorf("expected no result with an error, got %v %v", rows, fields)
			}
		})
	}
}

func TestBetweenEmptyTable(t *testing.T) {
	rm := &mockRelationManager{
		fetch: func(tableName string) ([]*storage.Row, []*storage.Field, error) {
			return nil, []*storage.Field{{Column: "num"}}, nil
		},
	}
	stmt, err := parseSQL(`SELECT num FROM tbl1 WHERE num BETWEEN 1 AND 10`)
	if err != nil {
		t.Fatalf("unexpected parse error: %v", err)
	}
	rows, _, err := EvaluateSelect(stmt.(sql.Select), rm)
	if err != nil {
		t.Fatalf("unexpected error: %v", err)
	}
	if len(rows) != 0 {
		t.Errorf("expected no rows, got %v", rows)
	}
}

func TestBetweenJoinCondition(t *testing.T) {
	rm := &mockRelationManager{
		fetch: func(tableName string) ([]*storage.Row, []*storage.Field, error) {
			switch tableName {
			case "vals":
				return []*storage.Row{
					{Vals: []interface{}{int64(1)}},
					{Vals: []interface{}{int64(15)}},
					{Vals: []interface{}{nil}},
					{Vals: []interface{}{int64(30)}},
				}, []*storage.Field{{Column: "v"}}, nil
			case "ranges":
				return []*storage.Row{
					{Vals: []interface{}{"low", int64(0), int64(9)}},
					{Vals: []interface{}{"mid", int64(10), int64(19)}},
					{Vals: []interface{}{"open", int64(20), nil}},
				}, []*storage.Field{{Column: "name"}, {Column: "lo"}, {Column: "hi"}}, nil
			}
			return nil, nil, storage.ErrTableNotExist
		},
	}
	stmt, err := parseSQL(`SELECT vals.v, r.name FROM vals LEFT JOIN ranges r ON vals.v BETWEEN r.lo AND r.hi`)
	if err != nil {
		t.Fatalf("unexpected parse error: %v", err)
	}
	rows, _, err := EvaluateSelect(stmt.(sql.Select), rm)
	if err != nil {
		t.Fatalf("unexpected error: %v", err)
	}
	expect := [][]interface{}{
		{int64(1), "low"},
		{int64(15), "mid"},
		{nil, nil},
		{int64(30), nil},
	}
	actual := [][]interface{}{}
	for _, row := range rows {
		actual = append(actual, row.Vals)
	}
	if !reflect.DeepEqual(expect, actual) {
		t.Errorf("rows do not match. expected: %v actual: %v", expect, actual)
	}
}

func TestBetweenInSelectList(t *testing.T) {
	stmt, err := parseSQL(`SELECT id, num BETWEEN 1 AND 5 in_range FROM tbl1 WHERE id <= 3`)
	if err != nil {
		t.Fatalf("unexpected parse error: %v", err)
	}
	rows, fields, err := EvaluateSelect(stmt.(sql.Select), newBetweenFixture())
	if err != nil {
		t.Fatalf("unexpected error: %v", err)
	}
	expect := [][]interface{}{
		{int64(0), false},
		{int64(1), true},
		{int64(2), true},
		{int64(3), false},
	}
	actual := [][]interface{}{}
	for _, row := range rows {
		actual = append(actual, row.Vals)
	}
	if !reflect.DeepEqual(expect, actual) {
		t.Errorf("rows do not match. expected: %v actual: %v", expect, actual)
	}
	if len(fields) != 2 || fields[1].Column != "in_range" {
		t.Errorf("unexpected header %v", fields)
	}
}

func TestBetweenDelete(t *testing.T) {
	stmt, err := parseSQL(`DELETE FROM tbl1 WHERE num BETWEEN 5 AND 10`)
	if err != nil {
		t.Fatalf("unexpected parse error: %v", err)
	}
	f := newBetweenFixture()
	count, err := EvaluateDelete(stmt.(sql.DeleteStatementSearched), f)
	if err != nil {
		t.Fatalf("unexpected error: %v", err)
	}
	if expect := []uint32{2, 4, 6}; count != 3 || !reflect.DeepEqual(expect, f.deleted) {
		t.Errorf("expected rows %v to be deleted, got %v (count %d)", expect, f.deleted, count)
	}

	// a statement that fails does not delete anything
	stmt, err = parseSQL(`DELETE FROM tbl1 WHERE num BETWEEN 5 AND 'z'`)
	if err != nil {
		t.Fatalf("unexpected parse error: %v", err)
	}
	f = newBetweenFixture()
	count, err = EvaluateDelete(stmt.(sql.DeleteStatementSearched), f)
	if !errors.Is(err, ErrIncompatTypeCompare) {
		t.Errorf("expected error `%v`, got `%v`", ErrIncompatTypeCompare, err)
	}
	if count != 0 || len(f.deleted) != 0 || f.flushed != 0 {
		t.Errorf("failed DELETE touched rows %v (count %d, %d flushes)", f.deleted, count, f.flushed)
	}
}

func TestBetweenUpdate(t *testing.T) {
	stmt, err := parseSQL(`UPDATE tbl1 SET flag = true WHERE str BETWEEN 'b' AND 'd'`)
	if err != nil {
		t.Fatalf("unexpected parse error: %v", err)
	}
	f := newBetweenFixture()
	if err := EvaluateUpdate(stmt.(sql.UpdateStatementSearched), f); err != nil {
		t.Fatalf("unexpected error: %v", err)
	}
	if expect := []uint32{1, 2}; !reflect.DeepEqual(expect, f.updated) {
		t.Errorf("expected rows %v to be updated, got %v", expect, f.updated)
	}

	// a statement that fails does not update anything
	stmt, err = parseSQL(`UPDATE tbl1 SET flag = true WHERE str BETWEEN 1 AND 2`)
	if err != nil {
		t.Fatalf("unexpected parse error: %v", err)
	}
	f = newBetweenFixture()
	err = EvaluateUpdate(stmt.(sql.UpdateStatementSearched), f)
	if !errors.Is(err, ErrIncompatTypeCompare) {
		t.Errorf("expected error `%v`, got `%v`", ErrIncompatTypeCompare, err)
	}
	if len(f.updated) != 0 || f.flushed != 0 {
		t.Errorf("failed UPDATE touched rows %v (%d flushes)", f.updated, f.flushed)
	}
}

func TestBetweenSession(t *testing.T) {
	defer storage.ClearDataDir()

	s := Session{}
	defer s.Close()

	queries := []string{
		`CREATE DATABASE betweendb`,
		`USE betweendb`,
		`CREATE TABLE items (id int, name varchar(32))`,
		`SELECT * FROM items WHERE id BETWEEN 1 AND 2`,
		`INSERT INTO items VALUES (1, 'a'), (2, 'b'), (3, 'c'), (4, 'd')`,
		`INSERT INTO items (name) VALUES ('e')`,
		`SELECT * FROM items WHERE id BETWEEN 2 AND 3`,
		`SELECT * FROM items WHERE name BETWEEN 'b' AND 'e' ORDER BY name DESC`,
		`UPDATE items SET name = 'x' WHERE id BETWEEN 1 AND 2`,
		`DELETE FROM items WHERE id BETWEEN 3 AND 4`,
		`SELECT id between FROM items`,
	}
	for _, q := range queries {
		if err := s.ExecQuery(q); err != nil {
			t.Fatalf("query `%s` failed: %v", q, err)
		}
	}

	rows, _, err := s.RelationService.Fetch("items")
	if err != nil {
		t.Fatalf("unexpected error: %v", err)
	}
	actual := [][]interface{}{}
	for _, row := range rows {
		actual = append(actual, row.Vals)
	}
	expect := [][]interface{}{
		{int64(1), "x"},
		{int64(2), "x"},
		{nil, "e"},
	}
	if !reflect.DeepEqual(expect, actual) {
		t.Errorf("table content mismatch. expected: %v actual: %v", expect, actual)
	}

	if err := s.ExecQuery(`DELETE FROM items WHERE id BETWEEN 'a' AND 'b'`); err == nil {
		t.Errorf("expected a type error")
	}
	rows, _, err = s.RelationService.Fetch("items")
	if err != nil {
		t.Fatalf("unexpected error: %v", err)
	}
	if len(rows) != 3 {
		t.Errorf("failed DELETE removed rows: %v", rows)
	}
}
